#![no_main]
//! libFuzzer target: decoding, state handling and the oracle live in /verif/harness/src/fz.rs
use libfuzzer_sys::fuzz_target;

fuzz_target!(|data: &[u8]| {
    if let Err(m) = vrun::fz::run_target("history", data) {
        panic!("VIOLATION {m}");
    }
});
