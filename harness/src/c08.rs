//! C08 — reordering establishes the requested order and preserves every function.

use std::collections::HashMap;
use std::io::Write;
use std::time::Instant;

use oxidd::BooleanFunction;
use serde_json::json;

use crate::build::*;
use crate::engine::*;
use crate::hist::*;
use crate::hrun::*;
use crate::kinds::*;
use crate::model::*;
use crate::vhist::*;
use crate::vkinds::*;
use crate::vmodel::*;

/// all ordered subsets (as request lists) of 0..n
fn requests(n: u32) -> Vec<Vec<u32>> {
    fn rec(cur: &mut Vec<u32>, n: u32, out: &mut Vec<Vec<u32>>) {
        out.push(cur.clone());
        for v in 0..n {
            if !cur.contains(&v) {
                cur.push(v);
                rec(cur, n, out);
                cur.pop();
            }
        }
    }
    let mut out = vec![];
    rec(&mut vec![], n, &mut out);
    out
}

fn check_order(old: &[u32], new: &[u32], req: &[u32]) -> Result<(), String> {
    let n = old.len();
    let mut seen = vec![false; n];
    for &v in new {
        if v as usize >= n || seen[v as usize] {
            return Err(format!("order-perm: new level order {new:?} is not a permutation"));
        }
        seen[v as usize] = true;
    }
    if req.len() <= 1 {
        if new != old {
            return Err(format!("order-noop: request {req:?} changed the order {old:?} -> {new:?}"));
        }
        return Ok(());
    }
    let pos: HashMap<u32, usize> = new.iter().enumerate().map(|(l, &v)| (v, l)).collect();
    for w in req.windows(2) {
        if pos[&w[0]] >= pos[&w[1]] {
            return Err(format!("order-requested: request {req:?}, resulting level order {new:?}"));
        }
    }
    let (inv, best) = (inversions(old, new), min_inversions(old, req));
    if inv != best {
        return Err(format!("order-minimal: {old:?} -> {new:?} for request {req:?} costs {inv} adjacent swaps, minimum is {best}"));
    }
    Ok(())
}

/// Boolean kinds: `tables` alive while reordering src -> request (-> back)
fn suite_bool<K: BoolKind>(n: u32, src: &[u32], req: &[u32], tables: &[TT], threads: u32, mode: u8, rep: &mut Report) -> Result<(), String> {
    // mode: 0 = set_var_order_seq, 1 = set_var_order (sequential path unless huge), 2 = forced concurrent bubble sort
    let mr = mk_manager::<K>(n, src, if n > 8 { 1 << 21 } else { 1 << 15 }, 1 << 10, threads);
    let vs = vars::<K>(&mr, n);
    let mut memo = HashMap::new();
    let fns: Vec<K::F> = tables.iter().map(|t| from_shannon::<K>(&mr, &vs, t, &mut memo)).collect();
    drop(memo);
    // leave some dead nodes around
    {
        let mut acc = vs[0].clone();
        for i in 0..12 {
            acc = acc.xor(&vs[i % n as usize]).unwrap().or(&vs[(i + 1) % n as usize].not().unwrap()).unwrap();
        }
    }
    drop(vs);
    let do_reorder = |req: &[u32]| {
        if mode == 2 {
            oxidd_reorder::VERIF_FORCE_CONCURRENT.store(1, std::sync::atomic::Ordering::Relaxed);
        }
        K::set_var_order(&mr, req, mode == 0);
        oxidd_reorder::VERIF_FORCE_CONCURRENT.store(0, std::sync::atomic::Ordering::Relaxed);
    };
    let verify = |when: &str, rep: &mut Report| -> Result<(), String> {
        let order = K::order(&mr);
        for (f, t) in fns.iter().zip(tables) {
            rep.evaluations += 1;
            let got = K::table(f, n);
            if got != *t {
                return Err(format!("preserve: {when}: handle for {t:?} now interprets as {got:?}"));
            }
            let (cnt, exp) = (oxidd::Function::node_count(f), K::ref_count(t, &order));
            if cnt != exp {
                return Err(format!("node-count: {when}: {t:?} has {cnt} nodes, reference reduced diagram under {order:?} has {exp}"));
            }
        }
        let handles: Vec<&K::F> = fns.iter().collect();
        K::audit(&mr, &handles, true).map_err(|e| format!("audit: {when}: {e}"))?;
        Ok(())
    };
    verify("before reordering", rep)?;
    let old = K::order(&mr);
    do_reorder(req);
    let new = K::order(&mr);
    check_order(&old, &new, req)?;
    verify("after reordering", rep)?;
    // fresh-diagram behaviour: rebuilding every function gives the existing handle
    {
        let vs = vars::<K>(&mr, n);
        for (i, t) in tables.iter().enumerate() {
            if i % 3 != 0 && tables.len() > 64 {
                continue;
            }
            rep.evaluations += 1;
            // (minterm sums over 9..10 variables are too slow for managers with several workers)
            let r = if n > 8 { from_shannon::<K>(&mr, &vs, t, &mut HashMap::new()) } else { from_minterms::<K>(&mr, &vs, t) };
            if r != fns[i] {
                let got = K::table(&r, n);
                return Err(if got == *t { format!("noncanonical: rebuilding {t:?} after the reordering gives a handle != the preserved one") } else { format!("fresh-ops: rebuilding {t:?} after the reordering gives {got:?}") });
            }
        }
    }
    let removed = K::gc(&mr);
    let _ = removed;
    verify("after reordering + gc", rep)?;
    // and back
    let old2 = K::order(&mr);
    do_reorder(src);
    let new2 = K::order(&mr);
    check_order(&old2, &new2, src)?;
    if new2 != src {
        return Err(format!("order-requested: total request {src:?} gives {new2:?}"));
    }
    verify("after reordering back", rep)?;
    Ok(())
}

fn suite_val<K: VKind>(n: u32, src: &[u32], req: &[u32], tables: &[VT<K::V>], rep: &mut Report) -> Result<(), String> {
    let mr = vmk_manager::<K>(n, src, 1 << 10, 1);
    let mut memo = HashMap::new();
    let mut fns = vec![];
    for t in tables {
        fns.push(vbuild::<K>(&mr, t, &mut memo)?);
    }
    drop(memo);
    let verify = |when: &str, rep: &mut Report| -> Result<(), String> {
        let order = K::order(&mr);
        for (f, t) in fns.iter().zip(tables) {
            rep.evaluations += 1;
            let got = K::table(f, n);
            if got != *t {
                return Err(format!("preserve: {when}: handle for {:?} now interprets as {:?}", t.vals, got.vals));
            }
            let (cnt, exp) = (oxidd::Function::node_count(f), t.ref_node_count(&order));
            if cnt != exp {
                return Err(format!("node-count: {when}: {:?} has {cnt} nodes, reference has {exp}", t.vals));
            }
        }
        let handles: Vec<&K::F> = fns.iter().collect();
        K::audit(&mr, &handles, true).map_err(|e| format!("audit: {when}: {e}"))?;
        Ok(())
    };
    verify("before reordering", rep)?;
    let old = K::order(&mr);
    K::set_var_order(&mr, req, true);
    let new = K::order(&mr);
    check_order(&old, &new, req)?;
    verify("after reordering", rep)?;
    for (i, t) in tables.iter().enumerate() {
        let r = vbuild::<K>(&mr, t, &mut HashMap::new())?;
        rep.evaluations += 1;
        if r != fns[i] {
            return Err(if K::table(&r, n) == *t { "noncanonical: rebuilding a table after the reordering gives another handle".into() } else { "fresh-ops: rebuild gives a wrong table".to_string() });
        }
    }
    K::gc(&mr);
    K::set_var_order(&mr, src, false);
    if K::order(&mr) != src {
        return Err(format!("order-requested: total request {src:?} gives {:?}", K::order(&mr)));
    }
    verify("after reordering back", rep)?;
    Ok(())
}

fn sample_tables(n: u32, k: usize, seed: u64) -> Vec<TT> {
    let mut v = vec![TT::zero(n), TT::one(n)];
    let mut s = seed;
    while v.len() < k {
        s = mix(s);
        let w: Vec<u64> = (0..if n > 8 { 16 } else { 4 }).map(|i| mix(s ^ i)).collect();
        v.push(crate::c02::tt_from_words(n, &w, (s >> 60) as u8));
    }
    v
}

fn job_bool<K: BoolKind>(n: u32, srcs: &[Vec<u32>], cfg: &Cfg, rep: &mut Report) {
    let reqs = requests(n);
    let tables: Vec<TT> = if n == 3 { (0..256u64).map(|t| TT::from_u64(3, t)).collect() } else { sample_tables(n, cfg.t(96, 512), cfg.seed ^ n as u64) };
    for src in srcs {
        for (ri, req) in reqs.iter().enumerate() {
            // threads/mode rotate deterministically; the forced concurrent sort needs threads > 1
            let mode = ((ri + src[0] as usize) % 4) as u8;
            let (threads, mode) = match mode {
                0 => (1, 0),
                1 => (1, 1),
                2 => (4, 2),
                _ => (4, 1),
            };
            let mode_name = ["set_var_order_seq", "set_var_order", "set_var_order(concurrent bubble sort forced)"][mode as usize];
            let case = json!({"kind": K::NAME, "n": n, "src": src, "request": req, "threads": threads, "mode": mode_name, "functions": tables.len()});
            progress(&json!({"sig": format!("C08/{}/crash", K::NAME), "case": case}).to_string());
            match suite_bool::<K>(n, src, req, &tables, threads, mode, rep) {
                Ok(()) => {
                    if req.len() >= 2 && (req.len() as u32) < n {
                        rep.nontrivial += 1; // partial order with unnamed variables
                    } else if req.len() >= 2 && inversions(src, req) >= 2 {
                        rep.nontrivial += 1; // >= 2 swaps with all functions alive
                    }
                    rep.class(&format!("{}.n{n}.mode{mode}", K::NAME));
                }
                Err(m) => rep.viol(format!("C08/{}/{}", K::NAME, category(&m)), m, case.clone()),
            }
            if rep.samples.len() < 2 && req.len() == 2 {
                rep.sample(case);
            }
        }
    }
}

/// Forced concurrent bubble sort on 5..8 variables: random source orders and requests (reversals,
/// rotations and random permutations - several levels travel at once and follow each other).
fn job_conc<K: BoolKind>(seed: u64, cases: u32, rep: &mut Report) {
    let mut s = seed;
    for c in 0..cases {
        s = mix(s);
        // 5..8 variables; every tenth case 9 or 10 (the largest the table model supports)
        let n = if s % 10 == 0 { 9 + ((s >> 4) % 2) as u32 } else { 5 + ((s >> 4) % 4) as u32 };
        let mut src: Vec<u32> = (0..n).collect();
        let mut req: Vec<u32> = (0..n).collect();
        let mut r = s;
        for i in (1..n as usize).rev() {
            r = mix(r);
            src.swap(i, (r % (i as u64 + 1)) as usize);
        }
        match (s >> 8) % 4 {
            0 => {
                req = src.clone();
                req.reverse();
            }
            1 => {
                req = src.clone();
                req.rotate_left(1 + (s >> 12) as usize % (n as usize - 1));
            }
            _ => {
                for i in (1..n as usize).rev() {
                    r = mix(r);
                    req.swap(i, (r % (i as u64 + 1)) as usize);
                }
                if (s >> 8) % 4 == 3 {
                    req.truncate(2 + (s >> 16) as usize % (n as usize - 1));
                }
            }
        }
        let threads = [2u32, 3, 4, 8][(s >> 20) as usize % 4];
        let tables = sample_tables(n, 12, s);
        let case = json!({"kind": K::NAME, "n": n, "src": src, "request": req, "threads": threads, "mode": "set_var_order(concurrent bubble sort forced)", "functions": tables.len(), "tables_seed": s});
        progress(&json!({"sig": format!("C08/{}/crash", K::NAME), "case": case}).to_string());
        match suite_bool::<K>(n, &src, &req, &tables, threads, 2, rep) {
            Ok(()) => {
                if inversions(&src, &K_order_after(&src, &req)) >= 3 {
                    rep.nontrivial += 1;
                }
                rep.class(&format!("{}.conc.n{n}", K::NAME));
            }
            Err(m) => rep.viol(format!("C08/{}/conc/{}", K::NAME, category(&m)), m, case.clone()),
        }
        if rep.samples.is_empty() && c == 0 {
            rep.sample(case);
        }
    }
}

/// the unique minimal-inversion order for a total request is the request itself; for partial
/// requests use the request's own pairs as a lower bound
#[allow(non_snake_case)]
fn K_order_after(src: &[u32], req: &[u32]) -> Vec<u32> {
    if req.len() == src.len() {
        return req.to_vec();
    }
    // stable placement: keep unnamed variables, permute named ones into the requested order
    let named: Vec<usize> = src.iter().enumerate().filter(|(_, v)| req.contains(v)).map(|(i, _)| i).collect();
    let mut out = src.to_vec();
    for (k, &i) in named.iter().enumerate() {
        out[i] = req[k];
    }
    out
}

fn job_val<K: VKind>(n: u32, srcs: &[Vec<u32>], k: usize, seed: u64, rep: &mut Report) {
    let reqs = requests(n);
    let pal = K::palette();
    let mut tables: Vec<VT<K::V>> = vec![];
    // one-variable functions lifted to n variables (TDD: all 27)
    if K::IS_TDD {
        for code in 0..27usize {
            for v in 0..n {
                tables.push(VT::from_fn(n, 3, |i| K::var_value((code / 3usize.pow(((i / 3usize.pow(v)) % 3) as u32)) % 3)));
            }
        }
    }
    let mut s = seed;
    while tables.len() < k {
        s = mix(s);
        let ss = s;
        tables.push(VT::from_fn(n, K::BASE, |i| pal[(mix(ss ^ (i as u64 * 77)) % pal.len().min(7) as u64) as usize].clone()));
    }
    tables.dedup();
    for src in srcs {
        for req in &reqs {
            let case = json!({"kind": K::NAME, "n": n, "src": src, "request": req, "functions": tables.len()});
            progress(&json!({"sig": format!("C08/{}/crash", K::NAME), "case": case}).to_string());
            match suite_val::<K>(n, src, req, &tables, rep) {
                Ok(()) => {
                    if req.len() >= 2 {
                        rep.nontrivial += 1;
                    }
                    rep.class(&format!("{}.n{n}", K::NAME));
                }
                Err(m) => rep.viol(format!("C08/{}/{}", K::NAME, category(&m)), m, case.clone()),
            }
            if rep.samples.is_empty() && req.len() == 2 {
                rep.sample(case);
            }
        }
    }
}

pub fn run(cfg: &Cfg) -> i32 {
    let start = Instant::now();
    let checks = Checks { canon: true, structure: true, rc: true, node_count: true };
    if let Some(path) = cfg.replay.as_ref().filter(|p| replay_case_is(p, |c| (c["ops"].is_array() && c["cfg"].is_object()) || (is_bool_kind(c) && c["src"].is_array()))) {
        let v: serde_json::Value = serde_json::from_str(&std::fs::read_to_string(path).expect("replay file")).expect("json");
        let case = &v["case"];
        let r = match case["kind"].as_str().unwrap_or("") {
            "bdd" if case.get("ops").is_some() => replay_case::<BddK>("C08", case, checks).map(|_| ()),
            "bcdd" if case.get("ops").is_some() => replay_case::<BcddK>("C08", case, checks).map(|_| ()),
            "zbdd" if case.get("ops").is_some() => replay_case::<ZbddK>("C08", case, checks).map(|_| ()),
            "mtbdd-i64" => vreplay::<MtI64K>(case, checks).map(|_| ()),
            "mtbdd-f64" => vreplay::<MtF64K>(case, checks).map(|_| ()),
            "tdd" => vreplay::<TddK>(case, checks).map(|_| ()),
            k => {
                // exhaustive-suite case: re-run exactly this (src, request)
                let n = case["n"].as_u64().unwrap_or(3) as u32;
                let src: Vec<u32> = serde_json::from_value(case["src"].clone()).unwrap_or_default();
                let req: Vec<u32> = serde_json::from_value(case["request"].clone()).unwrap_or_default();
                let threads = case["threads"].as_u64().unwrap_or(1) as u32;
                let mode = match case["mode"].as_str().unwrap_or("") {
                    "set_var_order_seq" => 0,
                    "set_var_order" => 1,
                    _ => 2,
                };
                let tables: Vec<TT> = if n == 3 {
                    (0..256u64).map(|t| TT::from_u64(3, t)).collect()
                } else if let Some(ts) = case["tables_seed"].as_u64() {
                    sample_tables(n, 12, ts)
                } else {
                    sample_tables(n, case["functions"].as_u64().unwrap_or(96) as usize, cfg.seed ^ n as u64)
                };
                let mut rep = Report::default();
                let out = isolated(300, |w| {
                    let r = match k {
                        "bdd" => suite_bool::<BddK>(n, &src, &req, &tables, threads, mode, &mut rep),
                        "bcdd" => suite_bool::<BcddK>(n, &src, &req, &tables, threads, mode, &mut rep),
                        "zbdd" => suite_bool::<ZbddK>(n, &src, &req, &tables, threads, mode, &mut rep),
                        _ => Err("replay: unsupported kind".into()),
                    };
                    let _ = writeln!(w, "{}", json!({"ok": r.is_ok(), "msg": r.err()}));
                });
                match out.end {
                    End::Exit(0) => {
                        let v: serde_json::Value = out.lines.iter().filter_map(|l| serde_json::from_str(l).ok()).next().unwrap_or(json!({"ok": false, "msg": "no verdict"}));
                        if v["ok"].as_bool() == Some(true) { Ok(()) } else { Err(v["msg"].as_str().unwrap_or("?").to_string()) }
                    }
                    e => Err(format!("crash: {e:?}")),
                }
            }
        };
        return match r {
            Ok(_) => {
                println!("replay: case passes");
                0
            }
            Err(m) => {
                println!("VIOLATION property=C08 replay={path}\n  what: {m}");
                1
            }
        };
    }
    let mut jobs: Vec<Box<dyn FnMut(&mut dyn Write) + '_>> = vec![];
    let mut names = vec![];
    let p3 = permutations(3);
    let p4 = permutations(4);
    macro_rules! add_bool {
        ($K:ty, $salt:expr) => {
            for src in &p3 {
                let src = src.clone();
                names.push(format!("n3/{}/{:?}", <$K>::NAME, src));
                jobs.push(Box::new(move |w: &mut dyn Write| {
                    let mut rep = Report::default();
                    job_bool::<$K>(3, &[src.clone()], cfg, &mut rep);
                    rep.emit(w);
                }));
            }
            // n = 4: all 24 sources in thorough, 8 (seeded) in quick
            for (i, src) in p4.iter().enumerate() {
                if !cfg.thorough && (i as u64 + cfg.seed + $salt) % 3 != 0 {
                    continue;
                }
                let src = src.clone();
                names.push(format!("n4/{}/{:?}", <$K>::NAME, src));
                jobs.push(Box::new(move |w: &mut dyn Write| {
                    let mut rep = Report::default();
                    job_bool::<$K>(4, &[src.clone()], cfg, &mut rep);
                    rep.emit(w);
                }));
            }
            for sh in 0..cfg.t(2, 8) {
                let seed = mix(cfg.seed ^ (0xc08_c00 + $salt * 100 + sh as u64));
                let cases = cfg.t(250, 2500);
                names.push(format!("conc/{}/{}", <$K>::NAME, sh));
                jobs.push(Box::new(move |w: &mut dyn Write| {
                    let mut rep = Report::default();
                    job_conc::<$K>(seed, cases, &mut rep);
                    rep.emit(w);
                }));
            }
            for sh in 0..cfg.t(2, 6) {
                let job = HistJob {
                    prop: "C08",
                    seed: mix(cfg.seed ^ (0xc08_000 + $salt * 100 + sh as u64)),
                    cases: cfg.t(700, 8000),
                    weights: Weights { apply: 24, quant: 3, subst: 3, lifecycle: 10, gc: 8, reorder: 24, add_vars: 3, rebuild: 10, repeat: 4 },
                    nmin: 5,
                    nmax: 8,
                    len: 10..50,
                    threads: vec![1, 4],
                    caches: vec![16, 4096],
                    checks,
                };
                names.push(format!("hist/{}/{}", <$K>::NAME, sh));
                jobs.push(Box::new(move |w: &mut dyn Write| {
                    let mut rep = Report::default();
                    hist_campaign::<$K>(&job, &mut rep, &|s| s.reorders_effective >= 2, &|_| Ok(()));
                    rep.emit(w);
                }));
            }
        };
    }
    add_bool!(BddK, 1);
    add_bool!(BcddK, 2);
    add_bool!(ZbddK, 3);
    macro_rules! add_val {
        ($K:ty, $salt:expr, $k:expr) => {
            for src in &p3 {
                let src = src.clone();
                let seed = mix(cfg.seed ^ (0xc08_900 + $salt));
                names.push(format!("n3/{}/{:?}", <$K>::NAME, src));
                jobs.push(Box::new(move |w: &mut dyn Write| {
                    let mut rep = Report::default();
                    job_val::<$K>(3, &[src.clone()], $k, seed, &mut rep);
                    rep.emit(w);
                }));
            }
            for sh in 0..cfg.t(1, 3) {
                let seed = mix(cfg.seed ^ (0xc08_a00 + $salt * 100 + sh as u64));
                let cases = cfg.t(500, 6000);
                names.push(format!("vhist/{}/{}", <$K>::NAME, sh));
                jobs.push(Box::new(move |w: &mut dyn Write| {
                    let mut rep = Report::default();
                    vhist_campaign::<$K>("C08", seed, cases, checks, 24, 6, &[16], &mut rep, &|s| s.reorders_effective >= 2);
                    rep.emit(w);
                }));
            }
        };
    }
    add_val!(MtI64K, 1, 80);
    add_val!(MtF64K, 2, 60);
    add_val!(TddK, 3, 120);
    let outs = run_jobs(&mut jobs, cfg.par, cfg.t(900, 7200));
    drop(jobs);
    let mut total = Report::default();
    merge_jobs(&mut total, outs, &names);
    conclude(
        cfg,
        &total,
        Meta {
            level: "exploration",
            rule: "n=3: every source permutation x every request (every ordered subset of the variables, incl. empty/singleton no-ops) with all 256 functions (MTBDD: 60-80 value tables, TDD: the 27 one-variable functions lifted to each variable + sampled tables) alive plus dead nodes; n=4: source permutations (all in thorough, a seeded third in quick) x all 65 requests with sampled functions; set_var_order_seq / set_var_order / set_var_order with the concurrent bubble sort forced through the oxidd_verif hook, threads 1 and 4. After each reordering: requested pairs in order, number of inversions old->new equals the brute-force minimum over all linear extensions of the request, every handle's table unchanged (independent interpreter), exact node counts vs reference canonical form, structure + reference-count audit, rebuilding every function yields the preserved handle (canonical, fresh-diagram behaviour), gc, reordering back to the source order and all checks again. Plus seeded random cases on 5..10 variables (random source order; request = reversal / rotation / random permutation / random partial request; 12 sampled functions alive) through the forced concurrent bubble sort with 2/3/4/8 workers, where several levels travel at the same time and follow each other (non-trivial: >= 3 swaps). Plus proptest histories over 5..8 variables with chains of reorderings mixed with operations and gc. Non-trivial = partial request leaving variables unnamed, or total request needing >= 2 swaps; histories with >= 2 effective reorderings.",
            assumptions: vec!["concurrent bubble sort on small diagrams is reached through the cfg(oxidd_verif) hook VERIF_FORCE_CONCURRENT; honest >= 65536-node runs are not part of the quick tier".into(), "pointer backend through C20".into()],
            extra: json!({}),
        },
        start,
    )
}
