//! Driver for the libFuzzer targets (/verif/harness/fuzz, entry points in fz.rs).
//!
//! * quick tier: every committed seed and regression input (fuzz/seeds, fuzz/regress) is run
//!   through the in-process entry point in a forked child (no nightly build needed, seconds).
//! * thorough tier: `cargo +nightly fuzz build`, then one libFuzzer process per (target, shard)
//!   with `-runs=N -seed=VERIF_SEED+shard` on a fresh corpus directory initialised from the seeds.
//!   A crash artefact is a violation (the input is stored in the replay file as hex and replays
//!   through fz::run_target); timeout-/oom- artefacts and build problems are inconclusive.

use std::io::Write;
use std::process::Command;

use serde_json::{Value, json};

use crate::engine::*;

fn fuzz_dir() -> String {
    format!("{}/harness/fuzz", verif_dir())
}

fn inputs_of(target: &str) -> Vec<(String, Vec<u8>)> {
    let mut v = vec![];
    for sub in ["seeds", "regress"] {
        let d = format!("{}/{sub}/{target}", fuzz_dir());
        let Ok(rd) = std::fs::read_dir(&d) else { continue };
        let mut names: Vec<_> = rd.filter_map(|e| e.ok()).map(|e| e.path()).collect();
        names.sort();
        for p in names {
            if let Ok(data) = std::fs::read(&p) {
                v.push((format!("{sub}/{}", p.file_name().unwrap().to_string_lossy()), data));
            }
        }
    }
    v
}

/// one input through the in-process entry point, in a forked child
pub fn run_input_isolated(target: &str, data: &[u8]) -> Result<(), String> {
    let out = isolated(120, |w| {
        let r = crate::fz::run_target(target, data);
        let _ = writeln!(w, "{}", json!({"ok": r.is_ok(), "msg": r.err()}));
    });
    match out.end {
        End::Exit(0) => {
            let v: Value = out.lines.iter().filter_map(|l| serde_json::from_str(l).ok()).find(|v: &Value| v.get("ok").is_some()).unwrap_or(json!({"ok": false, "msg": "crash: no verdict"}));
            if v["ok"].as_bool() == Some(true) { Ok(()) } else { Err(v["msg"].as_str().unwrap_or("?").to_string()) }
        }
        End::Timeout => Err("timeout: watchdog".into()),
        e => {
            let p = out.lines.iter().filter_map(|l| serde_json::from_str::<Value>(l).ok()).find_map(|v| v.get("panic").and_then(|p| p.as_str()).map(|s| s.to_string()));
            Err(format!("crash: process ended {e:?} (panic: {})", p.unwrap_or_default()))
        }
    }
}

fn corpus_replay(prop: &str, target: &str, rep: &mut Report) {
    let inputs = inputs_of(target);
    for (name, data) in &inputs {
        rep.evaluations += 1;
        match run_input_isolated(target, data) {
            Ok(()) => {}
            Err(m) if m.starts_with("timeout") => rep.inconclusive.push(format!("fuzz corpus {target}/{name}: {m}")),
            Err(m) => rep.viol(format!("{prop}/fuzz/{target}/{}", crate::hrun::category(&m)), format!("{m} [saved input {name}]"), json!({"fuzz_target": target, "input_hex": crate::c18::hex(data), "name": name})),
        }
    }
    rep.class_n(&format!("fuzz.{target}.saved_inputs_replayed"), inputs.len() as u64);
    if inputs.len() >= 2 {
        rep.nontrivial += inputs.len() as u64;
    }
}

/// `cargo +nightly fuzz build` (all targets are one crate: one build)
fn build_targets() -> Result<(), String> {
    let flags = format!("{} --cfg oxidd_verif", std::env::var("RUSTFLAGS").unwrap_or_default().replace("--cfg oxidd_verif", ""));
    let out = Command::new("cargo")
        .args(["+nightly", "fuzz", "build"])
        .current_dir(format!("{}/harness", verif_dir()))
        .env("RUSTFLAGS", flags.trim())
        .env("CARGO_NET_OFFLINE", "true")
        .output()
        .map_err(|e| format!("cargo fuzz: {e}"))?;
    if !out.status.success() {
        let log = format!("{}/target/build-fuzz.log", verif_dir());
        let _ = std::fs::write(&log, &out.stderr);
        return Err(format!("cargo +nightly fuzz build failed (see {log})"));
    }
    Ok(())
}

fn stat(log: &str, key: &str) -> u64 {
    log.lines().rev().find_map(|l| l.strip_prefix(key).map(|r| r.trim().parse::<u64>().unwrap_or(0))).unwrap_or(0)
}

fn campaign(prop: &str, target: &str, runs: u64, seed: u64, max_len: u32, rep: &mut Report) {
    let vd = verif_dir();
    let bin = format!("{vd}/target/x86_64-unknown-linux-gnu/release/{target}");
    let work = format!("{vd}/target/fuzz-work/{target}-{seed}");
    let _ = std::fs::remove_dir_all(&work);
    let (corpus, art) = (format!("{work}/corpus"), format!("{work}/artifacts"));
    let _ = std::fs::create_dir_all(&corpus);
    let _ = std::fs::create_dir_all(&art);
    for (name, data) in inputs_of(target) {
        let _ = std::fs::write(format!("{corpus}/{}", name.replace('/', "-")), data);
    }
    let out = Command::new(&bin)
        .args([
            format!("-runs={runs}"),
            format!("-seed={}", (seed % 0xffff_fff0) + 1),
            format!("-max_len={max_len}"),
            "-len_control=0".into(),
            "-timeout=30".into(),
            "-rss_limit_mb=8000".into(),
            "-malloc_limit_mb=2000".into(),
            "-print_final_stats=1".into(),
            format!("-artifact_prefix={art}/"),
            corpus.clone(),
        ])
        .env("RUST_BACKTRACE", "0")
        .output();
    let out = match out {
        Ok(o) => o,
        Err(e) => {
            rep.inconclusive.push(format!("fuzz {target}: cannot run {bin}: {e}"));
            return;
        }
    };
    let log = String::from_utf8_lossy(&out.stderr).to_string();
    let execs = stat(&log, "stat::number_of_executed_units:");
    let cov = log.lines().rev().find_map(|l| l.split("cov: ").nth(1).and_then(|r| r.split_whitespace().next()).and_then(|x| x.parse::<u64>().ok())).unwrap_or(0);
    let corp = std::fs::read_dir(&corpus).map(|d| d.count()).unwrap_or(0) as u64;
    rep.evaluations += execs;
    rep.nontrivial += corp; // inputs libFuzzer kept because they reached new coverage
    rep.class_n(&format!("fuzz.{target}.executions"), execs);
    rep.class_n(&format!("fuzz.{target}.corpus_inputs_with_new_coverage"), corp);
    let e = format!("fuzz.{target}.coverage_edges_max");
    let old = rep.classes.get(&e).copied().unwrap_or(0);
    rep.classes.insert(e, old.max(cov));
    if rep.samples.len() < 2 {
        rep.sample(json!({"suite": "libFuzzer campaign", "target": target, "runs": runs, "seed": seed, "executions": execs, "coverage_edges": cov, "corpus": corp}));
    }
    // artefacts
    let mut arts: Vec<_> = std::fs::read_dir(&art).map(|d| d.filter_map(|e| e.ok()).map(|e| e.path()).collect()).unwrap_or_else(|_| vec![]);
    arts.sort();
    for p in arts {
        let name = p.file_name().unwrap().to_string_lossy().to_string();
        let data = std::fs::read(&p).unwrap_or_default();
        if name.starts_with("crash-") {
            // the message of the panic that libFuzzer turned into the crash
            let msg = log.lines().skip_while(|l| !l.contains("panicked at")).nth(1).unwrap_or("").trim().to_string();
            let msg = msg.strip_prefix("VIOLATION ").map(|s| s.to_string()).unwrap_or(if msg.is_empty() { "crash: deadly signal / sanitizer report".to_string() } else { format!("panic: {msg}") });
            rep.viol(format!("{prop}/fuzz/{target}/{}", crate::hrun::category(&msg)), format!("{msg} [libFuzzer artefact {name}, {} bytes]", data.len()), json!({"fuzz_target": target, "input_hex": crate::c18::hex(&data), "name": name}));
        } else {
            // oom-/timeout-/slow-unit artefacts of the instrumented build (2 GB malloc limit,
            // ASan overhead): the input decides - run it through the plain entry point
            match run_input_isolated(target, &data) {
                Ok(()) => rep.class(&format!("fuzz.{target}.memory_or_time_artefacts_passing_in_plain_build")),
                Err(m) if m.starts_with("timeout") => rep.inconclusive.push(format!("fuzz {target}: libFuzzer reported {name} and the input also exceeds the watchdog in the plain build")),
                Err(m) => rep.viol(format!("{prop}/fuzz/{target}/{}", crate::hrun::category(&m)), format!("{m} [libFuzzer artefact {name}, {} bytes]", data.len()), json!({"fuzz_target": target, "input_hex": crate::c18::hex(&data), "name": name})),
            }
        }
    }
    if !out.status.success() && !std::fs::read_dir(&art).map(|mut d| d.next().is_some()).unwrap_or(false) {
        rep.inconclusive.push(format!("fuzz {target}: libFuzzer exited with {:?} without an artefact", out.status.code()));
    }
    let _ = std::fs::remove_dir_all(&corpus);
}

/// Jobs for the targets of `prop`: corpus replay (quick) or libFuzzer campaigns (thorough)
pub fn add_jobs<'a>(cfg: &'a Cfg, prop: &'static str, jobs: &mut Vec<Box<dyn FnMut(&mut dyn Write) + 'a>>, names: &mut Vec<String>) {
    let targets: Vec<&'static str> = crate::fz::TARGETS.iter().filter(|t| t.1 == prop).map(|t| t.0).collect();
    if targets.is_empty() {
        return;
    }
    for &t in &targets {
        names.push(format!("fuzz-corpus/{t}"));
        jobs.push(Box::new(move |w: &mut dyn Write| {
            let mut rep = Report::default();
            corpus_replay(prop, t, &mut rep);
            rep.emit(w);
        }));
    }
    if !cfg.thorough || std::env::var("VERIF_NO_FUZZ").is_ok() {
        return;
    }
    // the build happens once, inside the first job (jobs run in forked children)
    let built = std::sync::Arc::new(std::sync::OnceLock::<Result<(), String>>::new());
    let _ = built;
    match build_targets() {
        Ok(()) => {}
        Err(e) => {
            names.push("fuzz-build".into());
            jobs.push(Box::new(move |w: &mut dyn Write| {
                let mut rep = Report::default();
                rep.inconclusive.push(e.clone());
                rep.emit(w);
            }));
            return;
        }
    }
    for &t in &targets {
        let (runs, max_len) = match t {
            "dddmp_import" => (6_000_000u64, 4096u32),
            "parsers" => (1_500_000, 4096),
            "simplify" => (1_500_000, 512),
            "natural" => (250_000, 512),
            "history" => (60_000, 600),
            _ => (150_000, 512),
        };
        for shard in 0..3u64 {
            let seed = mix(cfg.seed ^ (0xf0_22 + shard)) % 1_000_000_007;
            names.push(format!("fuzz/{t}/{shard}"));
            jobs.push(Box::new(move |w: &mut dyn Write| {
                let mut rep = Report::default();
                campaign(prop, t, runs, seed, max_len, &mut rep);
                rep.emit(w);
            }));
        }
    }
}

/// `--replay` of a file recorded by this module
pub fn replay(cfg: &Cfg) -> Option<i32> {
    let path = cfg.replay.as_ref()?;
    let v: Value = serde_json::from_str(&std::fs::read_to_string(path).ok()?).ok()?;
    let t = v["case"]["fuzz_target"].as_str()?.to_string();
    let data = crate::c18::unhex(v["case"]["input_hex"].as_str()?);
    Some(match run_input_isolated(&t, &data) {
        Ok(()) => {
            println!("replay: input passes");
            0
        }
        Err(m) if m.starts_with("timeout") => {
            println!("INCONCLUSIVE: {m}");
            2
        }
        Err(m) => {
            println!("VIOLATION property={} replay={path}\n  what: {m}", cfg.prop);
            1
        }
    })
}
