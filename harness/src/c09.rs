//! C09 — ZBDD set-family operations.

use std::io::Write;
use std::time::Instant;

use oxidd::zbdd::ZBDDFunction as Z;
use oxidd::{BooleanFunction, BooleanVecSet, Function, Manager, ManagerRef};
use proptest::prelude::*;
use serde_json::json;

use crate::build::*;
use crate::c02::{all256, order_from_keys, tt_from_words};
use crate::engine::*;
use crate::kinds::*;
use crate::model::*;

type K = ZbddK;

/// family view of a u8 table: bit index = set as mask
fn subset0(t: u8, v: u32) -> u8 {
    let mut r = 0u8;
    for s in 0..8u32 {
        if (t >> s) & 1 == 1 && (s >> v) & 1 == 0 {
            r |= 1 << s;
        }
    }
    r
}
fn subset1(t: u8, v: u32) -> u8 {
    let mut r = 0u8;
    for s in 0..8u32 {
        if (t >> s) & 1 == 1 && (s >> v) & 1 == 1 {
            r |= 1 << (s & !(1 << v));
        }
    }
    r
}
fn change(t: u8, v: u32) -> u8 {
    let mut r = 0u8;
    for s in 0..8u32 {
        if (t >> s) & 1 == 1 {
            r |= 1 << (s ^ (1 << v));
        }
    }
    r
}

pub fn exh3(order: &[u32], threads: u32, rep: &mut Report) {
    let ctx = json!({"kind": "zbdd", "order": order, "threads": threads});
    progress(&json!({"sig": "C09/crash-setup", "ctx": ctx}).to_string());
    let mr = mk_manager::<K>(3, order, 1 << 12, 1 << 8, threads);
    let Some(fns) = all256::<K>(&mr, rep, &ctx) else { return };
    let check = |rep: &mut Report, what: &str, sigop: &str, r: &Z, exp: u8, case: serde_json::Value| {
        rep.evaluations += 1;
        if *r != fns[exp as usize] {
            let got = K::table(r, 3);
            let sig = if got.w[0] as u8 == exp { "C01/zbdd/noncanonical".to_string() } else { format!("C09/{sigop}") };
            rep.viol(sig, format!("{what}: expected family {exp:02x}, got {got:?}"), json!({"ctx": ctx, "case": case}));
        }
    };
    // constants
    let (e, b) = mr.with_manager_shared(|m| (Z::empty(m), Z::base(m)));
    check(rep, "empty", "empty", &e, 0, json!("empty"));
    check(rep, "base", "base", &b, 1, json!("base"));
    let singles: Vec<Z> = (0..3).map(|v| mr.with_manager_shared(|m| Z::singleton(m, v).unwrap())).collect();
    for v in 0..3u32 {
        check(rep, &format!("singleton({v})"), "singleton", &singles[v as usize], 1 << (1 << v), json!({"op": "singleton", "var": v}));
    }
    // function view vs family view: eval over all variables <=> membership
    for t in 0..256usize {
        for s in 0..8usize {
            rep.evaluations += 1;
            if fns[t].eval(assignment(3, s)) != ((t >> s) & 1 == 1) {
                rep.viol("C09/eval-vs-membership", format!("family {t:02x}: eval(set {s:03b}) disagrees with membership"), json!({"ctx": ctx, "family": t, "set": s}));
            }
            // the general form of the argument list: a default valuation (here the opposite
            // value for every variable) followed by overrides; documented: the last value counts
            let mut over = assignment(3, !s & 7);
            over.extend(assignment(3, s));
            rep.evaluations += 1;
            if fns[t].eval(over) != ((t >> s) & 1 == 1) {
                rep.viol("C09/eval-vs-membership", format!("family {t:02x}: eval(set {s:03b}) disagrees with membership when every variable is first given the opposite value (the last value counts)"), json!({"ctx": ctx, "family": t, "set": s, "overrides": true}));
            }
        }
    }
    let pos: Vec<usize> = (0..3u32).map(|v| order.iter().position(|&x| x == v).unwrap()).collect();
    for v in 0..3u32 {
        progress(&json!({"sig": "C09/subset/crash", "ctx": ctx, "var": v}).to_string());
        for t in 0..256usize {
            let f = &fns[t];
            check(rep, &format!("subset0({t:02x},{v})"), "subset0", &f.subset0(v).unwrap(), subset0(t as u8, v), json!({"op": "subset0", "family": t, "var": v}));
            check(rep, &format!("subset1({t:02x},{v})"), "subset1", &f.subset1(v).unwrap(), subset1(t as u8, v), json!({"op": "subset1", "family": t, "var": v}));
            check(rep, &format!("change({t:02x},{v})"), "change", &f.change(v).unwrap(), change(t as u8, v), json!({"op": "change", "family": t, "var": v}));
            // non-trivial: v above root / between levels / below all, with level != var
            if let Some(rl) = K::root_level(f) {
                if (pos[v as usize] as u32) != rl && order[pos[v as usize]] != pos[v as usize] as u32 {
                    rep.nontrivial += 1;
                }
            }
        }
    }
    rep.class_n("subset0/1/change", 3 * 3 * 256);
    for a in 0..256usize {
        progress(&json!({"sig": "C09/setops/crash", "ctx": ctx, "a": a}).to_string());
        for bb in 0..256usize {
            let (fa, fb) = (&fns[a], &fns[bb]);
            check(rep, &format!("union({a:02x},{bb:02x})"), "union", &fa.union(fb).unwrap(), (a | bb) as u8, json!({"op": "union", "a": a, "b": bb}));
            check(rep, &format!("intsec({a:02x},{bb:02x})"), "intsec", &fa.intsec(fb).unwrap(), (a & bb) as u8, json!({"op": "intsec", "a": a, "b": bb}));
            check(rep, &format!("diff({a:02x},{bb:02x})"), "diff", &fa.diff(fb).unwrap(), (a & !bb) as u8, json!({"op": "diff", "a": a, "b": bb}));
            if a != bb && a != 0 && bb != 0 && a != 1 && bb != 1 {
                rep.nontrivial += 1;
            }
        }
    }
    rep.class_n("union/intsec/diff pairs", 3 * 65536);
    // make_node(var, hi, lo) for all hi, lo over the variables strictly below var
    let mut n_mk = 0u64;
    for (l, &v) in order.iter().enumerate() {
        let below: u8 = order[l + 1..].iter().map(|&x| 1u8 << x).sum();
        // families over `below` only
        let fams: Vec<usize> = (0..256usize).filter(|&t| (0..8usize).all(|s| (t >> s) & 1 == 0 || (s as u8 & !below) == 0)).collect();
        progress(&json!({"sig": "C09/make_node/crash", "ctx": ctx, "var": v}).to_string());
        for &hi in &fns_idx(&fams) {
            for &lo in &fns_idx(&fams) {
                let r = mr.with_manager_shared(|m| {
                    let var = singles[v as usize].as_edge(m);
                    let h = m.clone_edge(fns[hi].as_edge(m));
                    let lw = m.clone_edge(fns[lo].as_edge(m));
                    oxidd::zbdd::make_node(m, var, h, lw).map(|e| Z::from_edge(m, e))
                });
                let mut exp = lo as u8;
                for s in 0..8usize {
                    if (hi >> s) & 1 == 1 {
                        exp |= 1 << (s | (1 << v));
                    }
                }
                n_mk += 1;
                check(rep, &format!("make_node({v},{hi:02x},{lo:02x})"), "make_node", &r.unwrap(), exp, json!({"op": "make_node", "var": v, "hi": hi, "lo": lo}));
                if hi != 0 && lo != 0 {
                    rep.nontrivial += 1;
                }
            }
        }
    }
    rep.class_n("make_node", n_mk);
    if rep.samples.is_empty() {
        rep.sample(json!({"ctx": ctx, "suite": "256 families over 3 variables: subset0/subset1/change x 3 vars, union/intsec/diff x all pairs, make_node for all hi/lo over lower variables, eval == membership", "example": {"op": "change", "family": "0x16 = {{0},{1},{2}}", "var": 1, "expected": format!("{:02x}", change(0x16, 1))}}));
    }
}

fn fns_idx(v: &[usize]) -> Vec<usize> {
    v.to_vec()
}

// ---- random families up to 8 variables + add_vars histories -----------------

#[derive(Clone, Debug)]
struct RCase {
    n: u32,
    order_keys: Vec<u16>,
    words: [Vec<u64>; 2],
    density: [u8; 2],
    var: u16,
    add: u8,
}

fn rstrategy() -> impl Strategy<Value = RCase> {
    (2u32..=7).prop_flat_map(|n| {
        (Just(n), proptest::collection::vec(any::<u16>(), 8), [proptest::collection::vec(any::<u64>(), 4), proptest::collection::vec(any::<u64>(), 4)], [0u8..4, 0u8..4], any::<u16>(), 0u8..3)
            .prop_map(|(n, order_keys, words, density, var, add)| RCase { n, order_keys, words, density, var, add })
    })
}

fn fam_op(t: &TT, f: impl Fn(usize) -> Option<usize>) -> TT {
    let mut r = TT::zero(t.n);
    for s in 0..t.size() {
        if t.get(s) {
            if let Some(d) = f(s) {
                r.set(d, true);
            }
        }
    }
    r
}

fn rcheck(c: &RCase) -> Result<(), String> {
    let n = c.n;
    let order = order_from_keys(n, &c.order_keys);
    let mr = mk_manager::<K>(n, &order, 1 << 14, 1 << 8, 1);
    let vs = vars::<K>(&mr, n);
    let mut tts: Vec<TT> = (0..2).map(|i| tt_from_words(n, &c.words[i], c.density[i])).collect();
    let mut memo = Default::default();
    let fs: Vec<Z> = tts.iter().map(|t| from_shannon::<K>(&mr, &vs, t, &mut memo)).collect();
    drop(memo);
    let mut n = n;
    let verify = |what: &str, r: &Z, exp: &TT, n: u32| -> Result<(), String> {
        let got = K::table(r, n);
        if got != *exp {
            return Err(format!("{what}: expected {exp:?}, got {got:?}"));
        }
        // function view consistent with family view
        for s in 0..(1usize << n) {
            if r.eval(assignment(n, s)) != exp.get(s) {
                return Err(format!("eval-vs-membership: {what} at set {s:b}"));
            }
        }
        Ok(())
    };
    for round in 0..2 {
        let v = ((c.var as usize * n as usize) >> 16) as u32;
        let bit = 1usize << v;
        verify("operand0", &fs[0], &tts[0], n)?;
        verify("operand1", &fs[1], &tts[1], n)?;
        verify("subset0", &fs[0].subset0(v).unwrap(), &fam_op(&tts[0], |s| if s & bit == 0 { Some(s) } else { None }), n)?;
        verify("subset1", &fs[0].subset1(v).unwrap(), &fam_op(&tts[0], |s| if s & bit != 0 { Some(s & !bit) } else { None }), n)?;
        verify("change", &fs[0].change(v).unwrap(), &fam_op(&tts[0], |s| Some(s ^ bit)), n)?;
        verify("union", &fs[0].union(&fs[1]).unwrap(), &tts[0].or(&tts[1]), n)?;
        verify("intsec", &fs[0].intsec(&fs[1]).unwrap(), &tts[0].and(&tts[1]), n)?;
        verify("diff", &fs[0].diff(&fs[1]).unwrap(), &tts[0].and(&tts[1].not()), n)?;
        let (e, b) = mr.with_manager_shared(|m| (Z::empty(m), Z::base(m)));
        verify("empty", &e, &TT::zero(n), n)?;
        verify("base", &b, &TT::from_fn(n, |s| s == 0), n)?;
        let sg = mr.with_manager_shared(|m| Z::singleton(m, v).unwrap());
        verify("singleton", &sg, &TT::from_fn(n, |s| s == bit), n)?;
        if round == 0 {
            if c.add == 0 {
                break;
            }
            // add variables: old handles keep their families (new variables in no set)
            mr.with_manager_exclusive(|m| m.add_vars(c.add as u32));
            n += c.add as u32;
            tts = tts.iter().map(|t| t.extend_zero(n)).collect();
        }
    }
    Ok(())
}

fn rand_job(seed: u64, cases: u32, rep: &mut Report) {
    let strat = rstrategy();
    let mut n = 0u64;
    let mut nt = 0u64;
    let mut samples = vec![];
    let out = crate::pt::run(
        seed,
        cases,
        &strat,
        |c| {
            n += 1;
            if c.add > 0 {
                nt += 1;
            }
            if samples.len() < 2 {
                samples.push(json!({"n": c.n, "order": order_from_keys(c.n, &c.order_keys), "a": tt_from_words(c.n, &c.words[0], c.density[0]).hex(), "b": tt_from_words(c.n, &c.words[1], c.density[1]).hex(), "add_vars": c.add}));
            }
            progress(&json!({"sig": "C09/random/crash", "case": format!("{c:?}")}).to_string());
        },
        rcheck,
    );
    rep.evaluations += out.cases * 18;
    rep.nontrivial += nt;
    rep.class_n("random_cases", out.cases);
    rep.class_n("random_cases_with_add_vars", nt);
    for s in samples {
        rep.sample(s);
    }
    if let Some((c, msg)) = out.failure {
        rep.viol(format!("C09/random/{}", crate::hrun::category(&msg)), msg, json!({"case": format!("{c:?}"), "n": c.n, "order": order_from_keys(c.n, &c.order_keys), "a": tt_from_words(c.n, &c.words[0], c.density[0]).hex(), "b": tt_from_words(c.n, &c.words[1], c.density[1]).hex()}));
    }
}

pub fn run(cfg: &Cfg) -> i32 {
    let start = Instant::now();
    let perms = permutations(3);
    let mut jobs: Vec<Box<dyn FnMut(&mut dyn Write) + '_>> = vec![];
    let mut names = vec![];
    for order in &perms {
        for threads in [1u32] {
            let order = order.clone();
            names.push(format!("exh3/{order:?}/t{threads}"));
            jobs.push(Box::new(move |w: &mut dyn Write| {
                let mut rep = Report::default();
                exh3(&order, threads, &mut rep);
                rep.emit(w);
            }));
        }
    }
    for sh in 0..cfg.t(6, 10) {
        let seed = mix(cfg.seed ^ (0xc09_000 + sh as u64));
        let cases = cfg.t(1500, 20000);
        names.push(format!("rand/{sh}"));
        jobs.push(Box::new(move |w: &mut dyn Write| {
            let mut rep = Report::default();
            chunked(seed, cases, 500, &mut rep, |s, n, r| rand_job(s, n, r));
            rep.emit(w);
        }));
    }
    let outs = run_jobs(&mut jobs, cfg.par, cfg.t(900, 7200));
    drop(jobs);
    let mut total = Report::default();
    merge_jobs(&mut total, outs, &names);
    conclude(
        cfg,
        &total,
        Meta {
            level: "exploration",
            rule: "exhaustive: all 256 families over 3 variables under all 6 orders: empty/base/singleton, subset0/subset1/change for every variable, union/intsec/diff for all pairs, make_node(var,hi,lo) for all hi,lo over the variables strictly below var, eval(all variables) <=> membership. Random (proptest): families over 2..7 variables under random orders; all operations re-checked after add_vars (old handles then mean: new variables in no set). Oracle: set arithmetic on bit-mask tables. Non-trivial = pair of distinct non-trivial families / variable not at the operand's root level in a manager whose level order differs from variable numbering / make_node with both hi and lo non-empty / random case with variables added.",
            assumptions: vec!["make_node is only called within its documented domain (var above hi and lo)".into()],
            extra: json!({}),
        },
        start,
    )
}
