//! C14 — resource exhaustion is reported as an error and leaves the manager intact.
//! Fault enumeration: every number of free node slots c in 0..=need for each scripted
//! operation, so that each allocation point of the operation is the failing one in some run.

use std::io::Write;
use std::time::Instant;

use oxidd::{BooleanFunction, Edge, Function, InnerNode, Manager, ManagerRef, Subst};
use oxidd_core::{Countable, LevelView};
use serde::{Deserialize, Serialize};
use serde_json::{Value, json};

use crate::build::*;
use crate::engine::*;
use crate::hist::bool_operator;
use crate::kinds::*;
use crate::model::*;

const CAP: usize = 90; // < 100: no background collector, slots are handed out one by one
const NV: u32 = 4; // operand variables 0..4 (levels 0..4)
const NX: u32 = 4; // extra variables 4..8 at the bottom, used only by filler nodes

#[derive(Clone, Debug, Serialize, Deserialize, PartialEq)]
pub enum Script {
    Var(u32),
    NotVar(u32),
    Not,
    Bin(BinOp),
    Ite,
    Quant(u8),
    ApplyQuant(u8, BinOp),
    Subst,
    Restrict,
    PickCubeDd,
    PickCubeDdSet,
    ImportAscii,
    ImportBinary,
    /// import a file exported from the complement-edge kind (complemented child edges)
    ImportForeign,
    Reorder(bool),
}

pub fn scripts(kind: BKind) -> Vec<Script> {
    let mut v = vec![Script::Var(0), Script::NotVar(0), Script::Not, Script::Ite, Script::Restrict, Script::PickCubeDd, Script::PickCubeDdSet, Script::ImportAscii, Script::ImportBinary, Script::ImportForeign, Script::Reorder(true), Script::Reorder(false)];
    for op in BINOPS {
        v.push(Script::Bin(op));
    }
    if kind != BKind::Zbdd {
        for q in 0..3 {
            v.push(Script::Quant(q));
        }
        v.push(Script::ApplyQuant(0, BinOp::And));
        v.push(Script::ApplyQuant(1, BinOp::Or));
        v.push(Script::ApplyQuant(2, BinOp::Xor));
        v.push(Script::ApplyQuant(0, BinOp::Imp));
        v.push(Script::Subst);
    }
    v
}

/// operand tables over NV + NX variables (independent of the extra variables in the BDD reading)
fn operand_tables(set: usize, kind: BKind) -> Vec<TT> {
    let n = NV + NX;
    let base: [[u64; 3]; 3] = [[0x6ac3, 0x3c5a, 0x9e71], [0xe8e8, 0x1ee1, 0x7fe0], [0x8001, 0xcafe, 0x0ff0]];
    base[set % 3]
        .iter()
        .map(|&w| {
            let t4 = TT::from_u64(NV, w);
            if kind == BKind::Zbdd { t4.extend_zero(n) } else { t4.extend_dc(n) }
        })
        .collect()
}

/// Create exactly `count` new distinct nodes on the extra levels; returns owning handles.
fn fill<K: BoolKind>(mr: &MRef<K>, count: usize) -> Result<Vec<K::F>, String>
where
    for<'id> <<K::F as Function>::Manager<'id> as Manager>::InnerNode: oxidd::HasLevel,
{
    mr.with_manager_shared(|m| {
        let mut t = K::F::t(m);
        // ZBDD: the constant true is the tautology node; the terminal is reached via lo edges
        while let Some(c) = t.cofactor_false() {
            t = c;
        }
        let f = K::F::f(m);
        let mut pool: Vec<K::F> = vec![t.clone(), f.clone()];
        let mut out: Vec<K::F> = vec![];
        let before = m.num_inner_nodes();
        'outer: for level in (NV..NV + NX).rev() {
            let snapshot = pool.clone();
            for a in &snapshot {
                for b in &snapshot {
                    if out.len() >= count {
                        break 'outer;
                    }
                    let (ea, eb) = (a.as_edge(m), b.as_edge(m));
                    if ea == eb || ea.tag().as_usize() != 0 {
                        continue;
                    }
                    if K::KIND == BKind::Zbdd && ea == f.as_edge(m) {
                        continue;
                    }
                    let n0 = m.num_inner_nodes();
                    let node = <<K::F as Function>::Manager<'_> as Manager>::InnerNode::new(level, [m.clone_edge(ea), m.clone_edge(eb)]);
                    let e = m.level(level).get_or_insert(node).map_err(|_| "harness: filler allocation failed".to_string())?;
                    let h = K::F::from_edge(m, e);
                    if m.num_inner_nodes() == n0 + 1 {
                        pool.push(h.clone());
                        if K::KIND == BKind::Bcdd {
                            if let Ok(nh) = K::F::not_edge(m, h.as_edge(m)) {
                                pool.push(K::F::from_edge(m, nh));
                            }
                        }
                        out.push(h);
                    }
                }
            }
        }
        if out.len() != count || m.num_inner_nodes() != before + count {
            return Err(format!("harness: could only create {} of {count} filler nodes", out.len()));
        }
        Ok(out)
    })
}

pub fn fill_pub<K: BoolKind>(mr: &MRef<K>, count: usize) -> Result<Vec<K::F>, String>
where
    for<'id> <<K::F as Function>::Manager<'id> as Manager>::InnerNode: oxidd::HasLevel,
{
    fill::<K>(mr, count)
}

struct Prep<K: BoolKind> {
    ops: Vec<K::F>,
    tts: Vec<TT>,
    aux: Vec<K::F>,
    subst: Option<Subst<K::F>>,
    file: Vec<u8>,
}

/// run the scripted operation; Ok(Some((result, expected table))) / Ok(None) for ops without
/// a function result / Err for out-of-memory
fn run_script<K: BoolKind>(s: &Script, mr: &MRef<K>, p: &Prep<K>) -> Result<Option<(Vec<K::F>, Vec<TT>)>, String> {
    let n = NV + NX;
    let oom = |_| "OOM".to_string();
    let ext = |t: TT| if K::KIND == BKind::Zbdd { t } else { t };
    let (a, b, c) = (&p.ops[0], &p.ops[1], &p.ops[2]);
    let (ta, tb, tc) = (&p.tts[0], &p.tts[1], &p.tts[2]);
    Ok(Some(match s {
        Script::Var(v) => (vec![mr.with_manager_shared(|m| K::F::var(m, *v)).map_err(oom)?], vec![TT::var(n, *v)]),
        Script::NotVar(v) => (vec![mr.with_manager_shared(|m| K::F::not_var(m, *v)).map_err(oom)?], vec![TT::var(n, *v).not()]),
        Script::Not => (vec![a.not().map_err(oom)?], vec![ta.not()]),
        Script::Bin(op) => {
            let r = match op {
                BinOp::And => a.and(b),
                BinOp::Or => a.or(b),
                BinOp::Xor => a.xor(b),
                BinOp::Equiv => a.equiv(b),
                BinOp::Nand => a.nand(b),
                BinOp::Nor => a.nor(b),
                BinOp::Imp => a.imp(b),
                BinOp::ImpStrict => a.imp_strict(b),
            };
            (vec![r.map_err(oom)?], vec![op.tt(ta, tb)])
        }
        Script::Ite => (vec![a.ite(b, c).map_err(oom)?], vec![ta.ite(tb, tc)]),
        Script::Quant(q) => {
            let r = K::quant(*q, a, &p.aux[0]).unwrap().map_err(oom)?;
            let mut t = *ta;
            for v in [2u32] {
                t = match q {
                    0 => t.exists(v),
                    1 => t.forall(v),
                    _ => t.unique(v),
                };
            }
            (vec![r], vec![t])
        }
        Script::ApplyQuant(q, op) => {
            let r = K::apply_quant(*q, bool_operator(*op), a, b, &p.aux[0]).unwrap().map_err(oom)?;
            let mut t = op.tt(ta, tb);
            for v in [2u32] {
                t = match q {
                    0 => t.exists(v),
                    1 => t.forall(v),
                    _ => t.unique(v),
                };
            }
            (vec![r], vec![t])
        }
        Script::Subst => {
            let r = K::substitute(a, p.subst.as_ref().unwrap()).unwrap().map_err(oom)?;
            // x0 -> b, x2 -> c simultaneously
            let t = TT::from_fn(n, |asg| {
                let mut x = asg;
                for (v, r) in [(0u32, tb), (2u32, tc)] {
                    if r.get(asg) {
                        x |= 1 << v;
                    } else {
                        x &= !(1 << v);
                    }
                }
                ta.get(x)
            });
            (vec![r], vec![t])
        }
        Script::Restrict => {
            // x2 := 0
            let r = a.restrict(&p.aux[1]).map_err(oom)?;
            (vec![r], vec![ext(ta.cof(2, false))])
        }
        Script::PickCubeDd => {
            let r = a.pick_cube_dd(|_, _, l| l % 2 == 0).map_err(oom)?;
            // verdict: a cube implying a (exact cube semantics are C13's business)
            let got = K::table(&r, n);
            if got.is_zero() != ta.is_zero() || !got.and(&ta.not()).is_zero() {
                return Err(format!("wrong-result: pick_cube_dd returned {got:?} for {ta:?}"));
            }
            (vec![r], vec![got])
        }
        Script::PickCubeDdSet => {
            let r = a.pick_cube_dd_set(&p.aux[1]).map_err(oom)?;
            let got = K::table(&r, n);
            if got.is_zero() != ta.is_zero() || !got.and(&ta.not()).is_zero() {
                return Err(format!("wrong-result: pick_cube_dd_set returned {got:?} for {ta:?}"));
            }
            (vec![r], vec![got])
        }
        Script::ImportAscii | Script::ImportBinary | Script::ImportForeign => {
            match K::dddmp_import(mr, &p.file, None) {
                Ok((_, fs)) => {
                    let exp = if matches!(s, Script::ImportForeign) { vec![tb.xor(tc).not(), ta.not()] } else { vec![tb.xor(tc), ta.or(tc)] };
                    (fs, exp)
                }
                Err(e) if e.contains("memory") || e.contains("Memory") => return Err("OOM".into()),
                Err(e) => return Err(format!("wrong-error: import failed with '{e}' (expected success or an out-of-memory error)")),
            }
        }
        Script::Reorder(seq) => {
            K::set_var_order(mr, &[2, 0, 3, 1], *seq);
            if K::order(mr)[..4] != [2, 0, 3, 1] {
                return Err(format!("wrong-result: order after set_var_order is {:?}", K::order(mr)));
            }
            return Ok(None);
        }
    }))
}

#[derive(Serialize, Deserialize, Debug, Default)]
struct Outcome {
    oom: bool,
    used: i64,
    live: usize,
    msg: Option<String>,
}

/// one fault-enumeration point, executed in a forked child
fn run_point<K: BoolKind>(s: &Script, set: usize, threads: u32, free: Option<usize>) -> Outcome
where
    for<'id> <<K::F as Function>::Manager<'id> as Manager>::InnerNode: oxidd::HasLevel,
{
    let n = NV + NX;
    let mut out = Outcome::default();
    let r: Result<(), String> = (|| {
        // files for the import scripts come from a separate, large manager
        let file: Vec<u8> = match s {
            Script::ImportAscii | Script::ImportBinary => {
                let mr0 = K::new_manager(4096, 64, 1);
                mr0.with_manager_exclusive(|m| m.add_vars(n));
                let vs = vars::<K>(&mr0, n);
                let tts = operand_tables(set, K::KIND);
                let mut memo = Default::default();
                let fs: Vec<K::F> = tts.iter().map(|t| from_shannon::<K>(&mr0, &vs, t, &mut memo)).collect();
                let r0 = fs[1].xor(&fs[2]).unwrap();
                let r1 = fs[0].or(&fs[2]).unwrap();
                let st = DdSettings { ascii: matches!(s, Script::ImportAscii), v3: false, strict: false, diagram_name: String::new() };
                let (f, res) = K::dddmp_export(&mr0, &st, &[&r0, &r1], None);
                res.map_err(|e| format!("harness: export failed: {e}"))?;
                f
            }
            Script::ImportForeign => {
                // exported from a BCDD manager: negative (complemented) child and root references
                let mr0 = BcddK::new_manager(4096, 64, 1);
                mr0.with_manager_exclusive(|m| m.add_vars(n));
                let vs = vars::<BcddK>(&mr0, n);
                let tts = operand_tables(set, BKind::Bcdd);
                let mut memo = Default::default();
                let fs: Vec<<BcddK as BoolKind>::F> = tts.iter().map(|t| from_shannon::<BcddK>(&mr0, &vs, t, &mut memo)).collect();
                let r0 = fs[1].xor(&fs[2]).unwrap().not().unwrap();
                let r1 = fs[0].not().unwrap();
                let st = DdSettings { ascii: set % 2 == 0, v3: false, strict: false, diagram_name: String::new() };
                let (f, res) = BcddK::dddmp_export(&mr0, &st, &[&r0, &r1], None);
                res.map_err(|e| format!("harness: export failed: {e}"))?;
                f
            }
            _ => vec![],
        };
        if matches!(s, Script::ImportForeign) && K::KIND == BKind::Zbdd {
            return Err("skip".into()); // a BDD-semantics file is not a ZBDD file
        }
        let mr = K::new_manager(CAP, 16, threads);
        mr.with_manager_exclusive(|m| m.add_vars(n));
        let tts = operand_tables(set, K::KIND);
        let ops: Vec<K::F> = {
            // operands are imported from a file written by a large manager: no garbage
            let mr0 = K::new_manager(4096, 64, 1);
            mr0.with_manager_exclusive(|m| m.add_vars(n));
            let vs0 = vars::<K>(&mr0, n);
            let mut memo = Default::default();
            let fs0: Vec<K::F> = tts.iter().map(|t| from_shannon::<K>(&mr0, &vs0, t, &mut memo)).collect();
            let st = DdSettings { ascii: true, v3: false, strict: false, diagram_name: String::new() };
            let refs: Vec<&K::F> = fs0.iter().collect();
            let (f, res) = K::dddmp_export(&mr0, &st, &refs, None);
            res.map_err(|e| format!("harness: export failed: {e}"))?;
            let (_, v) = K::dddmp_import(&mr, &f, None).map_err(|e| format!("harness: operand import failed: {e}"))?;
            v
        };
        for (f, t) in ops.iter().zip(&tts) {
            if K::table(f, n) != *t {
                return Err("harness: operand import gives a wrong table".into());
            }
        }
        // auxiliary arguments
        let aux: Vec<K::F> = {
            let vs: Vec<K::F> = mr.with_manager_shared(|m| (0..n).map(|v| K::F::var(m, v)).collect::<Result<Vec<_>, _>>()).map_err(|_| "harness: oom while building auxiliary arguments".to_string())?;
            let set2 = vs[2].clone();
            let cube = vs[2].not().map_err(|_| "harness: oom aux")?;
            vec![set2, cube]
        };
        let subst = if K::KIND != BKind::Zbdd { Some(Subst::new(vec![0u32, 2], vec![ops[1].clone(), ops[2].clone()])) } else { None };
        K::gc(&mr);
        let p = Prep { ops, tts, aux, subst, file };
        let live = K::num_inner_nodes(&mr);
        out.live = live;
        let fillers = match free {
            Some(c) => {
                if live + c > CAP {
                    return Err("skip".into());
                }
                fill::<K>(&mr, CAP - live - c)?
            }
            None => vec![],
        };
        let before = K::num_inner_nodes(&mr);
        progress(&json!({"sig": format!("C14/{}/abort/{}", K::NAME, script_name(s)), "script": s, "free_slots": free, "set": set, "threads": threads, "kind": K::NAME}).to_string());
        let r = run_script::<K>(s, &mr, &p);
        let after = K::num_inner_nodes(&mr);
        out.used = after as i64 - before as i64;
        let result = match r {
            Err(e) if e == "OOM" => {
                out.oom = true;
                None
            }
            Err(e) => return Err(e),
            Ok(x) => x,
        };
        // result correct?
        if let Some((fs, exp)) = &result {
            if fs.len() != exp.len() {
                return Err(format!("wrong-result: {} results, expected {}", fs.len(), exp.len()));
            }
            for (f, t) in fs.iter().zip(exp) {
                let got = K::table(f, n);
                if got != *t {
                    return Err(format!("wrong-result: operation returned Ok with table {got:?}, expected {t:?}"));
                }
            }
        }
        // operands intact (tables), diagram well-formed, reference counts exact
        let reordered = matches!(s, Script::Reorder(_));
        for (f, t) in p.ops.iter().zip(&p.tts) {
            if K::table(f, n) != *t {
                return Err("operands-changed: an operand denotes another function after the operation".into());
            }
        }
        let mut handles: Vec<&K::F> = p.ops.iter().chain(p.aux.iter()).chain(fillers.iter()).collect();
        if let Some(sb) = &p.subst {
            use oxidd::Substitution;
            for (_, r) in sb.pairs() {
                handles.push(r);
            }
        }
        if let Some((fs, _)) = &result {
            handles.extend(fs.iter());
        }
        K::audit(&mr, &handles, true).map_err(|e| format!("audit-after{}: {e}", if out.oom { "-oom" } else { "" }))?;
        drop(handles);
        // nothing leaked: after dropping the result and collecting we are back at live + fillers
        let nfill = fillers.len();
        drop(result);
        K::gc(&mr);
        let now = K::num_inner_nodes(&mr);
        if !reordered && now != live + nfill {
            return Err(format!("leak: after dropping the result and gc(): {now} inner nodes, expected {} (operands) + {nfill} (fillers)", live));
        }
        // free space, then the same operation must succeed
        drop(fillers);
        let removed = K::gc(&mr);
        if std::env::var("VERIF_DEBUG").is_ok() {
            eprintln!("after dropping fillers: gc removed {removed}, inner nodes now {}, live {live}", K::num_inner_nodes(&mr));
            for i in 0..3 {
                let r = run_script::<K>(s, &mr, &p);
                eprintln!("  retry {i}: {:?} nodes {}", r.as_ref().map(|_| ()).map_err(|e| e.clone()), K::num_inner_nodes(&mr));
                let r2 = fill::<K>(&mr, 1);
                eprintln!("  fill 1 on main thread: {:?} nodes {}", r2.as_ref().map(|v| v.len()).map_err(|e| e.clone()), K::num_inner_nodes(&mr));
            }
        }
        if !reordered {
            match run_script::<K>(s, &mr, &p) {
                Ok(Some((fs, exp))) => {
                    for (f, t) in fs.iter().zip(&exp) {
                        if K::table(f, n) != *t {
                            return Err("retry-wrong: after freeing space the operation returns a wrong result".into());
                        }
                    }
                }
                Ok(None) => {}
                Err(e) => {
                    let now = K::num_inner_nodes(&mr);
                    return Err(format!("retry-fails: after drop + gc the operation still fails ({e}) although only {now} of {CAP} node slots are in use"));
                }
            }
        }
        // the manager is intact: the whole remaining capacity can still be allocated (one worker
        // only: with several workers free slots may sit in another thread's list, see the open
        // finding oom-with-free-slots-in-another-threads-list)
        if !reordered && threads == 1 && out.oom {
            K::gc(&mr);
            let now = K::num_inner_nodes(&mr);
            match fill::<K>(&mr, CAP - now) {
                Ok(v) => drop(v),
                Err(e) => {
                    return Err(format!("capacity-after-oom: after the failed operation, the successful retry, drop and gc() the manager holds {now} nodes but {} further nodes cannot be allocated in a store of {CAP} ({e}; {} nodes in use at the failure)", CAP - now, K::num_inner_nodes(&mr)));
                }
            }
        }
        Ok(())
    })();
    match r {
        Ok(()) => {}
        Err(e) if e == "skip" => out.msg = Some("skip".into()),
        Err(e) => out.msg = Some(e),
    }
    out
}

fn script_name(s: &Script) -> String {
    format!("{s:?}").replace(['(', ')', ',', ' '], "_")
}

fn point_isolated<K: BoolKind>(s: &Script, set: usize, threads: u32, free: Option<usize>) -> Result<Outcome, String>
where
    for<'id> <<K::F as Function>::Manager<'id> as Manager>::InnerNode: oxidd::HasLevel,
{
    let out = isolated(120, |w| {
        let o = run_point::<K>(s, set, threads, free);
        let _ = writeln!(w, "{}", json!({"outcome": o}));
    });
    match out.end {
        End::Exit(0) => {
            for l in &out.lines {
                if let Ok(v) = serde_json::from_str::<Value>(l) {
                    if let Some(o) = v.get("outcome") {
                        return serde_json::from_value(o.clone()).map_err(|e| e.to_string());
                    }
                }
            }
            Err("abort: child exited without a verdict".into())
        }
        End::Timeout => Err("timeout: watchdog".into()),
        e => {
            let p = out.lines.iter().filter_map(|l| serde_json::from_str::<Value>(l).ok()).find_map(|v| v.get("panic").and_then(|p| p.as_str()).map(|s| s.to_string()));
            Err(format!("abort: process ended {e:?} during the operation (panic: {})", p.unwrap_or_default()))
        }
    }
}

/// input-based signature of a violation: (kind, script, class)
fn signature<K: BoolKind>(s: &Script, msg: &str, threads: u32) -> String {
    let class = crate::hrun::category(msg);
    match (s, class.as_str()) {
        (Script::Reorder(_), "abort") => "reorder-oom-abort".to_string(),
        // the open finding needs allocations on two threads; with one worker everything runs
        // on the calling thread and a failing retry is something else
        (_, "retry-fails") if threads > 1 => "oom-with-free-slots-in-another-threads-list".to_string(),
        _ => format!("C14/{}/{}/{}", K::NAME, script_name(s), class),
    }
}

fn job<K: BoolKind>(set: usize, threads: u32, rep: &mut Report)
where
    for<'id> <<K::F as Function>::Manager<'id> as Manager>::InnerNode: oxidd::HasLevel,
{
    let skip_reorder_oom = known("C14", "reorder-oom-abort");
    let _ = NX;
    for s in scripts(K::KIND) {
        // measure the need on an unconstrained run
        let base = match point_isolated::<K>(&s, set, threads, None) {
            Ok(o) => o,
            Err(m) if m.starts_with("timeout") => {
                rep.inconclusive.push(m);
                continue;
            }
            Err(m) => {
                rep.viol(signature::<K>(&s, &m, threads), format!("{m} [unconstrained run]"), json!({"kind": K::NAME, "script": s, "set": set, "threads": threads, "free_slots": null}));
                continue;
            }
        };
        rep.evaluations += 1;
        if let Some(m) = &base.msg {
            if m.starts_with("harness:") {
                rep.inconclusive.push(format!("{m} [{} {s:?} unconstrained]", K::NAME));
            } else if m != "skip" {
                rep.viol(signature::<K>(&s, m, threads), format!("{m} [unconstrained run]"), json!({"kind": K::NAME, "script": s, "set": set, "threads": threads, "free_slots": null}));
            }
            continue;
        }
        let need = base.used.max(0) as usize;
        rep.class_n(&format!("{}.need.{}", K::NAME, script_name(&s)), need as u64);
        for c in 0..=need.min(CAP - base.live) {
            if matches!(s, Script::Reorder(_)) && skip_reorder_oom && c > 0 && c < need {
                rep.excluded_by_known_finding += 1;
                continue;
            }
            rep.evaluations += 1;
            match point_isolated::<K>(&s, set, threads, Some(c)) {
                Ok(o) => {
                    if let Some(m) = o.msg {
                        if m.starts_with("harness:") {
                            rep.inconclusive.push(format!("{m} [{} {s:?} c={c}]", K::NAME));
                        } else if m != "skip" {
                            rep.viol(signature::<K>(&s, &m, threads), format!("{m} [{} free slots, the operation needs {need}]", c), json!({"kind": K::NAME, "script": s, "set": set, "threads": threads, "free_slots": c}));
                        }
                    } else {
                        if o.oom && c > 0 {
                            rep.nontrivial += 1; // failed after having allocated something
                        }
                        if o.oom {
                            rep.class(&format!("{}.oom_reported", K::NAME));
                        } else {
                            rep.class(&format!("{}.succeeded", K::NAME));
                            if c < need && threads == 1 {
                                // fewer slots than the unconstrained run consumed, yet success: fine
                                // (garbage of the unconstrained run is not needed), just count it
                                rep.class(&format!("{}.succeeded_below_need", K::NAME));
                            }
                        }
                    }
                }
                Err(m) if m.starts_with("timeout") => rep.inconclusive.push(format!("{m} [{s:?} c={c}]")),
                Err(m) => rep.viol(signature::<K>(&s, &m, threads), format!("{m} [{} free slots, the operation needs {need}]", c), json!({"kind": K::NAME, "script": s, "set": set, "threads": threads, "free_slots": c})),
            }
        }
        if rep.samples.len() < 2 {
            rep.sample(json!({"kind": K::NAME, "script": s, "operand_set": set, "threads": threads, "capacity": CAP, "live_nodes": base.live, "need": need, "enumerated_free_slots": format!("0..={need}")}));
        }
    }
}

/// MTBDD terminal capacity
fn mtbdd_terminals(rep: &mut Report) {
    use crate::vkinds::*;
    use crate::vmodel::*;
    for tcap in 1..=6usize {
        let out = isolated(60, |w| {
            let r: Result<(usize, usize), String> = (|| {
                let mr = MtI64K::new_manager(256, tcap, 16, 1);
                MtI64K::add_vars(&mr, 3);
                let mut ok = 0;
                let mut oom = 0;
                let mut held = vec![];
                for v in 0..8i64 {
                    progress(&json!({"sig": "C14/mtbdd/constant/abort", "terminal_capacity": tcap, "value": v}).to_string());
                    match MtI64K::constant(&mr, &RI::Num(v)) {
                        Ok(f) => {
                            ok += 1;
                            if MtI64K::table(&f, 3) != VT::constant(3, 2, RI::Num(v)) {
                                return Err("wrong-result: constant".into());
                            }
                            held.push(f);
                        }
                        Err(_) => oom += 1,
                    }
                }
                if ok != tcap.min(8) {
                    return Err(format!("capacity: {ok} distinct constants fit into a terminal capacity of {tcap}"));
                }
                // arithmetic producing a new terminal while the table is full
                if held.len() >= 2 {
                    let x = MtI64K::var(&mr, 0);
                    if let Ok(x) = x {
                        match MtI64K::bin(0, &held[1], &x) {
                            Ok(r) => {
                                let exp = VT::from_fn(3, 2, |i| RI::Num(1 + (i % 2) as i64));
                                if MtI64K::table(&r, 3) != exp {
                                    return Err("wrong-result: add with full terminal table".into());
                                }
                            }
                            Err(_) => oom += 1,
                        }
                    }
                }
                let handles: Vec<&<MtI64K as VKind>::F> = held.iter().collect();
                MtI64K::audit(&mr, &handles, true).map_err(|e| format!("audit-after-oom: {e}"))?;
                drop(handles);
                held.clear();
                MtI64K::gc(&mr);
                if MtI64K::num_terminals(&mr) != 0 {
                    return Err(format!("leak: {} terminals remain after dropping all handles and gc()", MtI64K::num_terminals(&mr)));
                }
                // space is available again
                for v in 100..100 + tcap as i64 {
                    held.push(MtI64K::constant(&mr, &RI::Num(v)).map_err(|_| "retry-fails: constant after gc".to_string())?);
                }
                Ok((ok, oom))
            })();
            let _ = writeln!(w, "{}", json!({"ok": r.as_ref().ok(), "err": r.as_ref().err()}));
        });
        rep.evaluations += 1;
        let v: Value = out.lines.iter().filter_map(|l| serde_json::from_str(l).ok()).find(|v: &Value| v.get("ok").is_some() || v.get("err").is_some()).unwrap_or(json!({"err": format!("abort: child ended {:?}", out.end)}));
        match v["err"].as_str() {
            Some(e) => rep.viol(format!("C14/mtbdd/terminals/{}", crate::hrun::category(e)), e.to_string(), json!({"kind": "mtbdd-i64", "terminal_capacity": tcap})),
            None => {
                rep.nontrivial += 1;
                rep.class("mtbdd.terminal_capacity_points");
            }
        }
    }
}

pub fn run(cfg: &Cfg) -> i32 {
    let start = Instant::now();
    if let Some(path) = cfg.replay.as_ref().filter(|p| replay_case_is(p, |c| c.get("script").is_some())) {
        let v: Value = serde_json::from_str(&std::fs::read_to_string(path).expect("replay file")).expect("json");
        let c = &v["case"];
        let s: Script = serde_json::from_value(c["script"].clone()).expect("script");
        let set = c["set"].as_u64().unwrap_or(0) as usize;
        let threads = c["threads"].as_u64().unwrap_or(1) as u32;
        let free = c["free_slots"].as_u64().map(|x| x as usize);
        // with several workers the failing allocation depends on the schedule: several attempts
        let attempts = if threads > 1 { 8 } else { 1 };
        let mut r = Ok(());
        for _ in 0..attempts {
            let x = match c["kind"].as_str().unwrap_or("bdd") {
                "bdd" => point_isolated::<BddK>(&s, set, threads, free),
                "bcdd" => point_isolated::<BcddK>(&s, set, threads, free),
                _ => point_isolated::<ZbddK>(&s, set, threads, free),
            };
            r = x.and_then(|o| match o.msg {
                Some(m) if m != "skip" => Err(m),
                _ => Ok(()),
            });
            // an open known finding at this point does not end the search for the recorded one
            if let Err(m) = &r {
                if !known("C14", &signature::<BddK>(&s, m, threads)) {
                    break;
                }
            }
        }
        return match r {
            Ok(_) => {
                println!("replay: case passes");
                0
            }
            Err(m) => {
                let sig = signature::<BddK>(&s, &m, threads);
                if known("C14", &sig) {
                    // the point now shows an open known finding (not what the file recorded)
                    println!("KNOWN-FINDING: property=C14 {sig}: {m}");
                    0
                } else {
                    println!("VIOLATION property=C14 replay={path}\n  what: {m}");
                    1
                }
            }
        };
    }
    let mut jobs: Vec<Box<dyn FnMut(&mut dyn Write) + '_>> = vec![];
    let mut names = vec![];
    let sets = 3;
    macro_rules! add_kind {
        ($K:ty) => {
            for set in 0..sets {
                for threads in [1u32, 4] {
                    if threads == 4 && !cfg.thorough && set > 0 {
                        continue;
                    }
                    names.push(format!("{}/set{}/t{}", <$K>::NAME, set, threads));
                    jobs.push(Box::new(move |w: &mut dyn Write| {
                        let mut rep = Report::default();
                        job::<$K>(set, threads, &mut rep);
                        rep.emit(w);
                    }));
                }
            }
        };
    }
    add_kind!(BddK);
    add_kind!(BcddK);
    add_kind!(ZbddK);
    names.push("mtbdd-terminals".into());
    jobs.push(Box::new(|w: &mut dyn Write| {
        let mut rep = Report::default();
        mtbdd_terminals(&mut rep);
        rep.emit(w);
    }));
    let outs = run_jobs(&mut jobs, cfg.par, cfg.t(1200, 7200));
    drop(jobs);
    let mut total = Report::default();
    merge_jobs(&mut total, outs, &names);
    total.exhaustive = true;
    conclude(
        cfg,
        &total,
        Meta {
            level: "fault_enumeration",
            rule: "for each DD kind (BDD, BCDD, ZBDD), thread count {1, 4} and scripted operation (var / not_var creation, not, all 8 binary operators, ite, exists/forall/unique, apply_exists/forall/unique, substitute, restrict, pick_cube_dd, pick_cube_dd_set, DDDMP import in ASCII and binary mode, import of a file with complemented edges exported from the complement-edge kind, set_var_order sequential and default) on fixed 4-variable operands in a manager of capacity 90 (below 100: no background collector, slots are handed out one at a time): first the number of node slots the operation consumes is measured (need); then for EVERY c in 0..=need the manager is filled with distinct filler nodes on four extra bottom levels until exactly c free slots remain and the operation is executed in a forked child - so every allocation point of the operation is the failing one in some run. Verdict per point: the call returns Err(OutOfMemory) or the correct table (never panic, abort, hang, wrong handle); afterwards operands keep their tables, structure + reference-count audit passes, dropping the result + gc() returns to operands + fillers (nothing leaked), and after dropping the fillers + gc() the same operation succeeds with the model's result; with one worker thread the whole remaining capacity (90 - live) must then still be allocatable. MTBDD: terminal capacities 1..6 with constant creation and arithmetic creating terminals. Non-trivial = point where the operation failed with c > 0 (it had already allocated nodes it must release). Known finding reorder-oom-abort: points c < need of set_var_order are excluded (counted).",
            assumptions: vec!["index backend only: the pointer backend has no capacity parameter".into(), "the need of an operation is deterministic for threads = 1; with 4 threads a point may succeed or fail depending on scheduling, both are accepted if the verdict conditions hold".into()],
            extra: json!({"capacity": CAP}),
        },
        start,
    )
}
