//! proptest driven from `main`: fixed seed, no persistence, shrinking on.

use std::cell::RefCell;

use proptest::strategy::{Strategy, ValueTree};
use proptest::test_runner::{Config, RngAlgorithm, TestCaseError, TestError, TestRng, TestRunner};

pub fn rng(seed: u64) -> TestRng {
    let mut bytes = [0u8; 32];
    let mut s = seed;
    for c in bytes.chunks_mut(8) {
        s = crate::engine::mix(s);
        c.copy_from_slice(&s.to_le_bytes());
    }
    TestRng::from_seed(RngAlgorithm::ChaCha, &bytes)
}

pub fn runner(seed: u64, cases: u32) -> TestRunner {
    let config = Config {
        cases,
        failure_persistence: None,
        max_shrink_iters: 2000,
        max_local_rejects: 1_000_000,
        max_global_rejects: 1_000_000,
        ..Config::default()
    };
    TestRunner::new_with_rng(config, rng(seed))
}

/// Outcome of one property run
pub struct PtOutcome<V> {
    /// number of generated (pre-shrinking) cases executed
    pub cases: u64,
    /// minimal failing case + message
    pub failure: Option<(V, String)>,
}

/// Run `test` on `cases` generated values. `test` returns Err(msg) on a
/// violation. `on_case` is invoked for every *generated* (not shrunk) case
/// before it runs, so callers can classify/count; it is not called during
/// shrinking.
pub fn run<S: Strategy>(
    seed: u64,
    cases: u32,
    strat: &S,
    mut on_case: impl FnMut(&S::Value),
    test: impl Fn(&S::Value) -> Result<(), String>,
) -> PtOutcome<S::Value>
where
    S::Value: Clone + std::fmt::Debug,
{
    run2(seed, cases, strat, |v| on_case(v), |_, _: &Result<(), String>| {}, test)
}

/// Like `run`, but the test returns a payload (e.g. statistics) that is handed
/// to `after` for every generated case (never for shrinking re-runs).
pub fn run2<S: Strategy, T>(
    seed: u64,
    cases: u32,
    strat: &S,
    mut on_case: impl FnMut(&S::Value),
    mut after: impl FnMut(&S::Value, &Result<T, String>),
    test: impl Fn(&S::Value) -> Result<T, String>,
) -> PtOutcome<S::Value>
where
    S::Value: Clone + std::fmt::Debug,
{
    // We drive generation ourselves so that counting stops at the first
    // failure and shrinking re-runs do not touch the counters.
    let mut r = runner(seed, cases);
    let mut n = 0u64;
    for _ in 0..cases {
        let tree = match strat.new_tree(&mut r) {
            Ok(t) => t,
            Err(e) => panic!("strategy failed to generate: {e}"),
        };
        let v = tree.current();
        on_case(&v);
        n += 1;
        let res = test(&v);
        after(&v, &res);
        if let Err(msg) = res {
            // shrink
            let (min, mmsg) = shrink(tree, &|v| test(v).map(|_| ()), msg);
            return PtOutcome { cases: n, failure: Some((min, mmsg)) };
        }
    }
    PtOutcome { cases: n, failure: None }
}

fn cat(m: &str) -> &str {
    m.split(':').next().unwrap_or("")
}

fn shrink<T: ValueTree>(mut tree: T, test: &impl Fn(&T::Value) -> Result<(), String>, first_msg: String) -> (T::Value, String)
where
    T::Value: Clone,
{
    let mut best = tree.current();
    let mut best_msg = first_msg;
    let mut iters = 0;
    // standard proptest shrinking loop
    if !tree.simplify() {
        return (best, best_msg);
    }
    loop {
        iters += 1;
        if iters > 3000 {
            break;
        }
        let v = tree.current();
        match test(&v) {
            Err(m) if cat(&m) != cat(&best_msg) => {
                // a different failure: do not follow it
                if !tree.complicate() {
                    break;
                }
            }
            Err(m) => {
                best = v;
                best_msg = m;
                if !tree.simplify() {
                    break;
                }
            }
            Ok(()) => {
                if !tree.complicate() {
                    break;
                }
            }
        }
    }
    (best, best_msg)
}

// silence unused warnings for items that only some properties use
#[allow(dead_code)]
fn _unused(_: RefCell<()>, _: TestCaseError, _: TestError<()>) {}
