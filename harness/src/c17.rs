//! C17 — the unique-table hash set behaves as a set.

use std::collections::BTreeSet;
use std::io::Write;
use std::time::Instant;

use linear_hashtbl::raw::RawTable;
use proptest::prelude::*;
use serde::{Deserialize, Serialize};
use serde_json::json;

use crate::engine::*;

#[derive(Clone, Copy, Debug, Serialize, Deserialize, PartialEq)]
pub enum HOp {
    Insert(u8),
    Remove(u8),
    Get(u8),
    /// retain keys k with (k >> shift) & 1 == bit
    Retain(u8, bool),
    DrainAll,
    /// consume only the first k elements, then drop the iterator
    DrainPart(u8),
    Clear,
    Reserve(u8),
    CloneContinue,
    IterCheck,
    IterMutCheck,
    IntoIterRestart,
}

#[derive(Clone, Copy, Debug, Serialize, Deserialize, PartialEq)]
pub enum HashFn {
    /// all keys collide
    Const,
    /// equal modulo every realistic mask, different above
    HighOnly,
    /// cluster that wraps around the end of a 16-slot array
    Wrap,
    Identity,
    /// multiplicative
    Mul,
}
pub const HASHES: [HashFn; 5] = [HashFn::Const, HashFn::HighOnly, HashFn::Wrap, HashFn::Identity, HashFn::Mul];

fn h(f: HashFn, k: u32) -> u64 {
    match f {
        HashFn::Const => 7,
        HashFn::HighOnly => 5 | ((k as u64 + 1) << 20),
        HashFn::Wrap => 13 + (k as u64 % 3) + ((k as u64) << 24),
        HashFn::Identity => k as u64,
        HashFn::Mul => (k as u64).wrapping_mul(0x9e3779b97f4a7c15) >> 7,
    }
}

#[derive(Default, Clone, Debug)]
pub struct HStats {
    pub ops: u64,
    pub checks: u64,
    pub tombstones_seen: bool,
    pub bulk_after_tombstone: bool,
    pub lookups_after_bulk_with_tombstones: u64,
    pub max_len: usize,
}

struct Run<S: linear_hashtbl::raw::Status> {
    t: RawTable<u32, S>,
    model: BTreeSet<u32>,
    f: HashFn,
    universe: u32,
    st: HStats,
    had_tomb: bool,
    bulk_after_tomb: bool,
}

impl<S: linear_hashtbl::raw::Status> Run<S> {
    fn new(f: HashFn, universe: u32) -> Self {
        Run { t: RawTable::new(), model: BTreeSet::new(), f, universe, st: HStats::default(), had_tomb: false, bulk_after_tomb: false }
    }

    /// Termination predicate: linear probing for an absent key terminates iff there is a FREE slot.
    fn census(&mut self, when: &str) -> Result<(), String> {
        let (free, tomb, occ, field) = self.t.verif_slot_census();
        if tomb > 0 {
            self.had_tomb = true;
            self.st.tombstones_seen = true;
        }
        if occ != self.t.len() {
            return Err(format!("len-vs-slots: {when}: {occ} occupied slots but len() = {}", self.t.len()));
        }
        if self.t.slots() > 0 && free == 0 {
            return Err(format!("termination: {when}: no FREE slot left ({tomb} tombstones, {occ} occupied, {} slots): a lookup of an absent key does not terminate", self.t.slots()));
        }
        if field > free {
            return Err(format!("free-count: {when}: internal free counter {field} exceeds the {free} FREE slots ({tomb} tombstones): growth will be skipped and lookups of absent keys eventually do not terminate"));
        }
        Ok(())
    }

    fn full_check(&mut self, when: &str) -> Result<(), String> {
        self.census(when)?;
        self.st.checks += 1;
        if self.t.len() != self.model.len() {
            return Err(format!("len: {when}: len() = {}, reference has {}", self.t.len(), self.model.len()));
        }
        if self.t.is_empty() != self.model.is_empty() {
            return Err(format!("len: {when}: is_empty() = {}", self.t.is_empty()));
        }
        for k in 0..self.universe {
            let hk = h(self.f, k);
            let got = self.t.get(hk, |x| *x == k).copied();
            let exp = self.model.get(&k).copied();
            if got != exp {
                return Err(format!("lookup: {when}: get({k}) = {got:?}, reference {exp:?}"));
            }
            if self.t.find(hk, |x| *x == k).is_some() != exp.is_some() {
                return Err(format!("lookup: {when}: find({k}) disagrees with the reference"));
            }
            if self.bulk_after_tomb {
                self.st.lookups_after_bulk_with_tombstones += 1;
            }
        }
        let mut seen: Vec<u32> = self.t.iter().copied().collect();
        seen.sort();
        let exp: Vec<u32> = self.model.iter().copied().collect();
        if seen != exp {
            return Err(format!("iter: {when}: iter() yields {seen:?}, reference {exp:?}"));
        }
        if self.t.iter().len() != exp.len() {
            return Err(format!("iter: {when}: iter().len() = {}", self.t.iter().len()));
        }
        self.st.max_len = self.st.max_len.max(exp.len());
        Ok(())
    }

    fn step(&mut self, op: &HOp) -> Result<(), String> {
        self.st.ops += 1;
        let u = self.universe;
        match *op {
            HOp::Insert(k) => {
                let k = k as u32 % u;
                let hk = h(self.f, k);
                match self.t.find_or_find_insert_slot(hk, |x| *x == k) {
                    Ok(_) => {
                        if !self.model.contains(&k) {
                            return Err(format!("lookup: find_or_find_insert_slot({k}) found an element that is not in the set"));
                        }
                    }
                    Err(slot) => {
                        if self.model.contains(&k) {
                            return Err(format!("lookup: find_or_find_insert_slot({k}) did not find a present element"));
                        }
                        unsafe { self.t.insert_in_slot_unchecked(hk, slot, k) };
                        self.model.insert(k);
                    }
                }
            }
            HOp::Remove(k) => {
                let k = k as u32 % u;
                self.census("before remove")?;
                let got = self.t.remove_entry(h(self.f, k), |x| *x == k);
                let exp = self.model.remove(&k);
                if got.is_some() != exp || got.map_or(false, |g| g != k) {
                    return Err(format!("remove: remove_entry({k}) = {got:?}, reference had it: {exp}"));
                }
            }
            HOp::Get(k) => {
                let k = k as u32 % u;
                self.census("before get")?;
                let got = self.t.get(h(self.f, k), |x| *x == k).copied();
                if got != self.model.get(&k).copied() {
                    return Err(format!("lookup: get({k}) = {got:?}"));
                }
                if let Some(v) = self.t.get_mut(h(self.f, k), |x| *x == k) {
                    if *v != k {
                        return Err(format!("lookup: get_mut({k}) = {v}"));
                    }
                }
            }
            HOp::Retain(shift, bit) => {
                let shift = shift % 5;
                let mut dropped = vec![];
                self.t.retain(|x| ((*x >> shift) & 1 == 1) == bit, |x| dropped.push(x));
                let exp_dropped: Vec<u32> = self.model.iter().copied().filter(|x| ((*x >> shift) & 1 == 1) != bit).collect();
                self.model.retain(|x| ((*x >> shift) & 1 == 1) == bit);
                dropped.sort();
                if dropped != exp_dropped {
                    return Err(format!("retain: rejected elements handed to drop: {dropped:?}, expected {exp_dropped:?}"));
                }
                if self.had_tomb {
                    self.bulk_after_tomb = true;
                }
            }
            HOp::DrainAll => {
                let mut got: Vec<u32> = self.t.drain().collect();
                got.sort();
                let exp: Vec<u32> = std::mem::take(&mut self.model).into_iter().collect();
                if got != exp {
                    return Err(format!("drain: drain() yields {got:?}, expected {exp:?}"));
                }
                if self.had_tomb {
                    self.bulk_after_tomb = true;
                }
            }
            HOp::DrainPart(k) => {
                let n = self.model.len();
                let take = if n == 0 { 0 } else { k as usize % (n + 1) };
                {
                    let mut d = self.t.drain();
                    if d.len() != n {
                        return Err(format!("drain: drain().len() = {} with {n} elements", d.len()));
                    }
                    let mut got = vec![];
                    for _ in 0..take {
                        match d.next() {
                            Some(x) => got.push(x),
                            None => return Err("drain: iterator ended early".into()),
                        }
                    }
                    for x in &got {
                        if !self.model.contains(x) {
                            return Err(format!("drain: yields {x} which is not in the set"));
                        }
                    }
                    got.sort();
                    got.dedup();
                    if got.len() != take {
                        return Err("drain: element yielded twice".into());
                    }
                }
                self.model.clear();
                if self.had_tomb {
                    self.bulk_after_tomb = true;
                }
            }
            HOp::Clear => {
                self.t.clear();
                self.model.clear();
                if self.had_tomb {
                    self.bulk_after_tomb = true;
                }
            }
            HOp::Reserve(k) => {
                self.t.reserve(k as usize % 40);
            }
            HOp::CloneContinue => {
                let c = self.t.clone();
                self.t = c;
            }
            HOp::IterCheck => {}
            HOp::IterMutCheck => {
                let mut seen: Vec<u32> = vec![];
                for x in self.t.iter_mut() {
                    seen.push(*x);
                }
                seen.sort();
                if seen != self.model.iter().copied().collect::<Vec<_>>() {
                    return Err(format!("iter: iter_mut() yields {seen:?}"));
                }
            }
            HOp::IntoIterRestart => {
                let t = std::mem::replace(&mut self.t, RawTable::new());
                let it = t.into_iter();
                if it.len() != self.model.len() {
                    return Err(format!("iter: into_iter().len() = {}", it.len()));
                }
                let mut got: Vec<u32> = it.collect();
                got.sort();
                let exp: Vec<u32> = std::mem::take(&mut self.model).into_iter().collect();
                if got != exp {
                    return Err(format!("iter: into_iter() yields {got:?}, expected {exp:?}"));
                }
                self.had_tomb = false;
                self.bulk_after_tomb = false;
            }
        }
        self.full_check(&format!("after {op:?}"))
    }
}

pub fn run_seq<S: linear_hashtbl::raw::Status>(f: HashFn, universe: u32, ops: &[HOp]) -> (Result<(), String>, HStats) {
    let mut r = Run::<S>::new(f, universe);
    for (i, op) in ops.iter().enumerate() {
        if let Err(e) = r.step(op) {
            return (Err(format!("{e} @step {i} {op:?}")), r.st);
        }
    }
    let mut st = r.st.clone();
    st.bulk_after_tombstone = r.bulk_after_tomb;
    (Ok(()), st)
}

fn exhaustive(f: HashFn, maxlen: usize, rep: &mut Report) {
    // alphabet over a 4-key universe
    let mut alpha: Vec<HOp> = vec![];
    for k in 0..4u8 {
        alpha.push(HOp::Insert(k));
        alpha.push(HOp::Remove(k));
    }
    alpha.extend([HOp::Retain(0, true), HOp::Retain(1, false), HOp::DrainAll, HOp::DrainPart(1), HOp::Clear, HOp::Reserve(1), HOp::CloneContinue, HOp::IntoIterRestart]);
    let a = alpha.len();
    let mut idx = vec![0usize; maxlen];
    let mut seq: Vec<HOp> = Vec::with_capacity(maxlen);
    let mut count = 0u64;
    progress(&json!({"sig": format!("C17/exhaustive/{f:?}/crash"), "hash": format!("{f:?}")}).to_string());
    // enumerate all sequences of length exactly maxlen (prefixes are checked step by step)
    'outer: loop {
        seq.clear();
        for i in 0..maxlen {
            seq.push(alpha[idx[i]]);
        }
        count += 1;
        let (r, st) = run_seq::<u32>(f, 4, &seq);
        rep.evaluations += st.checks;
        if st.tombstones_seen && st.lookups_after_bulk_with_tombstones > 0 {
            rep.nontrivial += 1;
        }
        if let Err(m) = r {
            rep.viol(format!("C17/{}", crate::hrun::category(&m)), m, json!({"hash": format!("{f:?}"), "status": "u32", "universe": 4, "ops": seq}));
            if rep.viols.len() > 20 {
                break;
            }
        }
        let mut p = maxlen;
        loop {
            if p == 0 {
                break 'outer;
            }
            p -= 1;
            idx[p] += 1;
            if idx[p] < a {
                break;
            }
            idx[p] = 0;
        }
    }
    rep.class_n(&format!("exhaustive.{f:?}.len{maxlen}"), count);
}

fn hop_strategy() -> impl Strategy<Value = HOp> {
    prop_oneof![
        30 => any::<u8>().prop_map(HOp::Insert),
        16 => any::<u8>().prop_map(HOp::Remove),
        6 => any::<u8>().prop_map(HOp::Get),
        3 => (any::<u8>(), any::<bool>()).prop_map(|(a, b)| HOp::Retain(a, b)),
        2 => Just(HOp::DrainAll),
        2 => any::<u8>().prop_map(HOp::DrainPart),
        2 => Just(HOp::Clear),
        2 => any::<u8>().prop_map(HOp::Reserve),
        1 => Just(HOp::CloneContinue),
        1 => Just(HOp::IterMutCheck),
        1 => Just(HOp::IntoIterRestart),
    ]
}

fn random_job(seed: u64, cases: u32, usize_status: bool, rep: &mut Report) {
    let strat = (0usize..5, prop_oneof![Just(24u32), Just(24u32), Just(200u32)], proptest::collection::vec(hop_strategy(), 30..300));
    let mut nt = 0u64;
    let mut evals = 0u64;
    let mut samples = vec![];
    let out = crate::pt::run2(
        seed,
        cases,
        &strat,
        |c| {
            progress(&json!({"sig": "C17/random/crash", "hash": format!("{:?}", HASHES[c.0]), "universe": c.1, "ops": c.2.len()}).to_string());
        },
        |c, r: &Result<HStats, String>| {
            if let Ok(st) = r {
                evals += st.checks;
                if st.tombstones_seen && st.lookups_after_bulk_with_tombstones > 0 {
                    nt += 1;
                    if samples.len() < 2 {
                        samples.push(json!({"hash": format!("{:?}", HASHES[c.0]), "universe": c.1, "ops": c.2.iter().take(40).collect::<Vec<_>>(), "ops_total": c.2.len()}));
                    }
                }
            }
        },
        |c| {
            let (r, st) = if usize_status { run_seq::<usize>(HASHES[c.0], c.1, &c.2) } else { run_seq::<u32>(HASHES[c.0], c.1, &c.2) };
            r.map(|_| st)
        },
    );
    rep.evaluations += evals;
    rep.nontrivial += nt;
    rep.class_n(if usize_status { "random.usize_status" } else { "random.u32_status" }, out.cases);
    for s in samples {
        rep.sample(s);
    }
    if let Some((c, msg)) = out.failure {
        rep.viol(format!("C17/{}", crate::hrun::category(&msg)), msg, json!({"hash": format!("{:?}", HASHES[c.0]), "status": if usize_status { "usize" } else { "u32" }, "universe": c.1, "ops": c.2}));
    }
}

pub fn run(cfg: &Cfg) -> i32 {
    let start = Instant::now();
    if let Some(path) = cfg.replay.as_ref().filter(|p| replay_case_is(p, |c| c["ops"].is_array())) {
        let v: serde_json::Value = serde_json::from_str(&std::fs::read_to_string(path).expect("replay file")).expect("json");
        let case = &v["case"];
        let ops: Vec<HOp> = serde_json::from_value(case["ops"].clone()).expect("ops");
        let f = HASHES.iter().copied().find(|x| format!("{x:?}") == case["hash"].as_str().unwrap_or("")).unwrap_or(HashFn::Const);
        let universe = case["universe"].as_u64().unwrap_or(24) as u32;
        let out = isolated(60, |w| {
            let (r, _) = if case["status"] == "usize" { run_seq::<usize>(f, universe, &ops) } else { run_seq::<u32>(f, universe, &ops) };
            let _ = writeln!(w, "{}", json!({"ok": r.is_ok(), "msg": r.err()}));
        });
        let v: serde_json::Value = out.lines.iter().filter_map(|l| serde_json::from_str(l).ok()).next().unwrap_or(json!({"ok": false, "msg": format!("no verdict: {:?}", out.end)}));
        return if v["ok"].as_bool() == Some(true) {
            println!("replay: case passes");
            0
        } else {
            println!("VIOLATION property=C17 replay={path}\n  what: {}", v["msg"].as_str().unwrap_or("?"));
            1
        };
    }
    let mut jobs: Vec<Box<dyn FnMut(&mut dyn Write) + '_>> = vec![];
    let mut names = vec![];
    for f in HASHES {
        let maxlen = cfg.t(6, 7);
        names.push(format!("exhaustive/{f:?}"));
        jobs.push(Box::new(move |w: &mut dyn Write| {
            let mut rep = Report::default();
            exhaustive(f, maxlen, &mut rep);
            rep.emit(w);
        }));
    }
    for sh in 0..cfg.t(6, 12) {
        let seed = mix(cfg.seed ^ (0xc17_000 + sh as u64));
        let cases = cfg.t(4000, 60000);
        names.push(format!("random/{sh}"));
        jobs.push(Box::new(move |w: &mut dyn Write| {
            let mut rep = Report::default();
            random_job(seed, cases, sh % 2 == 1, &mut rep);
            rep.emit(w);
        }));
    }
    crate::fzrun::add_jobs(cfg, "C17", &mut jobs, &mut names);
    let outs = run_jobs(&mut jobs, cfg.par, cfg.t(600, 7200));
    drop(jobs);
    let mut total = Report::default();
    merge_jobs(&mut total, outs, &names);
    conclude(
        cfg,
        &total,
        Meta {
            level: "exploration",
            rule: "RawTable<u32, u32|usize> driven through its public API (find_or_find_insert_slot + insert_in_slot_unchecked, remove_entry, get/get_mut/find, retain with drop callback, drain fully / dropped half-way, clear, reserve, clone-and-continue, iter/iter_mut/into_iter, len) with adversarial hash functions (all keys colliding, hashes differing only above the mask, cluster wrapping around the slot array, identity, multiplicative). Exhaustive: all sequences of length 5 (thorough: 6) over a 16-operation alphabet on a 4-key universe, for each hash function; random: proptest sequences of 30..300 operations over 24- and 200-key universes. Oracle: BTreeSet reference compared after every operation (every universe key looked up, len, iteration exactly once). Termination is decided by a predicate read through the oxidd_verif census hook: there must always be a FREE slot, and the table's free counter must not exceed the real number of FREE slots (otherwise growth is skipped and probing for an absent key cannot stop); a lookup is never issued in a state where it would not terminate. Non-trivial = sequence in which all keys are looked up after a drain/clear/retain that happened while tombstones existed. COVERAGE-GUIDED FUZZING: the libFuzzer targets of this property (harness/fuzz, entry points and decoders in fz.rs, the same oracle as above, built with AddressSanitizer, debug assertions and overflow checks) - quick tier: every committed seed and regression input is replayed through the in-process entry point; thorough tier: 3 libFuzzer campaigns per target with -runs=N -seed=f(VERIF_SEED) on fresh corpora initialised from the seeds (evaluations = executions, non-trivial = inputs kept for new coverage).",
            assumptions: vec!["the free-counter invariant (counter <= real FREE slots) is the exact reason linear probing terminates in this implementation; it is read through a cfg(oxidd_verif) hook".into()],
            extra: json!({}),
        },
        start,
    )
}
