//! Reference model: truth tables, value tables, reference canonical-form sizes.
//!
//! Nothing in this file uses any OxiDD type. Bit index of a table = assignment,
//! bit v of the index = value of variable v.

use std::collections::HashSet;

pub const MAXN: u32 = 10;
const WORDS: usize = 1 << (MAXN - 6);

/// Truth table over variables 0..n (n <= MAXN).
#[derive(Clone, Copy, PartialEq, Eq, Hash, PartialOrd, Ord)]
pub struct TT {
    pub n: u32,
    pub w: [u64; WORDS],
}

impl std::fmt::Debug for TT {
    fn fmt(&self, f: &mut std::fmt::Formatter<'_>) -> std::fmt::Result {
        write!(f, "{}", self.hex())
    }
}

#[inline]
fn nwords(n: u32) -> usize {
    if n <= 6 { 1 } else { 1usize << (n - 6) }
}
#[inline]
fn mask0(n: u32) -> u64 {
    if n >= 6 { !0 } else { (1u64 << (1u32 << n)) - 1 }
}

impl TT {
    pub fn zero(n: u32) -> TT {
        assert!(n <= MAXN);
        TT { n, w: [0; WORDS] }
    }
    pub fn one(n: u32) -> TT {
        let mut t = TT::zero(n);
        let k = nwords(n);
        for i in 0..k {
            t.w[i] = !0;
        }
        t.w[0] &= mask0(n);
        if n < 6 {
            t.w[0] = mask0(n);
        }
        t
    }
    pub fn size(&self) -> usize {
        1usize << self.n
    }
    pub fn from_fn(n: u32, f: impl Fn(usize) -> bool) -> TT {
        let mut t = TT::zero(n);
        for a in 0..(1usize << n) {
            if f(a) {
                t.set(a, true);
            }
        }
        t
    }
    /// Low bits of a u64 as table over n <= 6 variables
    pub fn from_u64(n: u32, bits: u64) -> TT {
        assert!(n <= 6);
        let mut t = TT::zero(n);
        t.w[0] = bits & mask0(n);
        t
    }
    pub fn var(n: u32, v: u32) -> TT {
        assert!(v < n);
        TT::from_fn(n, |a| (a >> v) & 1 == 1)
    }
    #[inline]
    pub fn get(&self, a: usize) -> bool {
        (self.w[a >> 6] >> (a & 63)) & 1 == 1
    }
    #[inline]
    pub fn set(&mut self, a: usize, v: bool) {
        if v {
            self.w[a >> 6] |= 1u64 << (a & 63);
        } else {
            self.w[a >> 6] &= !(1u64 << (a & 63));
        }
    }
    pub fn is_zero(&self) -> bool {
        self.w.iter().all(|&x| x == 0)
    }
    pub fn is_one(&self) -> bool {
        *self == TT::one(self.n)
    }
    pub fn popcount(&self) -> u64 {
        self.w.iter().map(|x| x.count_ones() as u64).sum()
    }
    pub fn not(&self) -> TT {
        let mut t = *self;
        let k = nwords(self.n);
        for i in 0..k {
            t.w[i] = !t.w[i];
        }
        t.w[0] &= if self.n < 6 { mask0(self.n) } else { !0 };
        t
    }
    pub fn zip(&self, o: &TT, f: impl Fn(u64, u64) -> u64) -> TT {
        assert_eq!(self.n, o.n);
        let mut t = TT::zero(self.n);
        let k = nwords(self.n);
        for i in 0..k {
            t.w[i] = f(self.w[i], o.w[i]);
        }
        if self.n < 6 {
            t.w[0] &= mask0(self.n);
        }
        t
    }
    pub fn and(&self, o: &TT) -> TT {
        self.zip(o, |a, b| a & b)
    }
    pub fn or(&self, o: &TT) -> TT {
        self.zip(o, |a, b| a | b)
    }
    pub fn xor(&self, o: &TT) -> TT {
        self.zip(o, |a, b| a ^ b)
    }
    pub fn ite(&self, t: &TT, e: &TT) -> TT {
        self.and(t).or(&self.not().and(e))
    }
    /// Does the function depend on variable v?
    pub fn depends(&self, v: u32) -> bool {
        self.cof(v, false) != self.cof(v, true)
    }
    /// Cofactor w.r.t. v := val; result is still a table over n variables
    /// (independent of v).
    pub fn cof(&self, v: u32, val: bool) -> TT {
        let mut t = TT::zero(self.n);
        let bit = 1usize << v;
        for a in 0..self.size() {
            let src = if val { a | bit } else { a & !bit };
            if self.get(src) {
                t.set(a, true);
            }
        }
        t
    }
    /// ZBDD-style: keep only assignments with v = 0 after selecting v := val
    /// (i.e. subset1/subset0 as families: result never contains v)
    pub fn zcof(&self, v: u32, val: bool) -> TT {
        let mut t = TT::zero(self.n);
        let bit = 1usize << v;
        for a in 0..self.size() {
            if a & bit != 0 {
                continue;
            }
            let src = if val { a | bit } else { a };
            if self.get(src) {
                t.set(a, true);
            }
        }
        t
    }
    /// Extend to n2 >= n variables; new variables irrelevant (BDD reading)
    pub fn extend_dc(&self, n2: u32) -> TT {
        assert!(n2 >= self.n);
        let m = self.size() - 1;
        TT::from_fn(n2, |a| self.get(a & m))
    }
    /// Extend to n2 >= n variables; new variables must be 0 (ZBDD reading)
    pub fn extend_zero(&self, n2: u32) -> TT {
        assert!(n2 >= self.n);
        let sz = self.size();
        TT::from_fn(n2, |a| a < sz && self.get(a))
    }
    pub fn hex(&self) -> String {
        let k = nwords(self.n);
        let mut s = String::new();
        for i in (0..k).rev() {
            if self.n >= 6 {
                s += &format!("{:016x}", self.w[i]);
            } else {
                let digits = ((1usize << self.n) + 3) / 4;
                s += &format!("{:0width$x}", self.w[i], width = digits);
            }
        }
        format!("{}:{}", self.n, s)
    }
    /// Is this a cube (conjunction of literals)? Returns per-var Option<bool>
    pub fn as_cube(&self) -> Option<Vec<Option<bool>>> {
        if self.is_zero() {
            return None;
        }
        let mut lits = vec![None; self.n as usize];
        let mut prod = TT::one(self.n);
        for v in 0..self.n {
            let c0 = self.cof(v, false);
            let c1 = self.cof(v, true);
            if c0.is_zero() {
                lits[v as usize] = Some(true);
                prod = prod.and(&TT::var(self.n, v));
            } else if c1.is_zero() {
                lits[v as usize] = Some(false);
                prod = prod.and(&TT::var(self.n, v).not());
            }
        }
        if prod == *self { Some(lits) } else { None }
    }
    pub fn cube(n: u32, lits: &[Option<bool>]) -> TT {
        let mut t = TT::one(n);
        for (v, l) in lits.iter().enumerate() {
            match l {
                Some(true) => t = t.and(&TT::var(n, v as u32)),
                Some(false) => t = t.and(&TT::var(n, v as u32).not()),
                None => {}
            }
        }
        t
    }
    pub fn exists(&self, v: u32) -> TT {
        self.cof(v, false).or(&self.cof(v, true))
    }
    pub fn forall(&self, v: u32) -> TT {
        self.cof(v, false).and(&self.cof(v, true))
    }
    pub fn unique(&self, v: u32) -> TT {
        self.cof(v, false).xor(&self.cof(v, true))
    }
}

#[derive(Clone, Copy, Debug, PartialEq, Eq, Hash, serde::Serialize, serde::Deserialize)]
pub enum BinOp {
    And,
    Or,
    Xor,
    Equiv,
    Nand,
    Nor,
    Imp,
    ImpStrict,
}
pub const BINOPS: [BinOp; 8] = [
    BinOp::And,
    BinOp::Or,
    BinOp::Xor,
    BinOp::Equiv,
    BinOp::Nand,
    BinOp::Nor,
    BinOp::Imp,
    BinOp::ImpStrict,
];
impl BinOp {
    pub fn tt(self, a: &TT, b: &TT) -> TT {
        match self {
            BinOp::And => a.and(b),
            BinOp::Or => a.or(b),
            BinOp::Xor => a.xor(b),
            BinOp::Equiv => a.xor(b).not(),
            BinOp::Nand => a.and(b).not(),
            BinOp::Nor => a.or(b).not(),
            BinOp::Imp => a.not().or(b),
            BinOp::ImpStrict => a.not().and(b),
        }
    }
    #[inline]
    pub fn u8(self, a: u8, b: u8) -> u8 {
        match self {
            BinOp::And => a & b,
            BinOp::Or => a | b,
            BinOp::Xor => a ^ b,
            BinOp::Equiv => !(a ^ b),
            BinOp::Nand => !(a & b),
            BinOp::Nor => !(a | b),
            BinOp::Imp => !a | b,
            BinOp::ImpStrict => !a & b,
        }
    }
}

/// Kinds of Boolean diagrams for the reference canonical form
#[derive(Clone, Copy, Debug, PartialEq, Eq, Hash, serde::Serialize, serde::Deserialize)]
pub enum BKind {
    Bdd,
    Bcdd,
    Zbdd,
}

/// Size of the unique reduced diagram of `t` under `order` (order[level] = var),
/// counted the way `Function::node_count` counts: inner nodes + reachable
/// terminal nodes (BCDD has a single terminal node).
pub fn ref_node_count(kind: BKind, t: &TT, order: &[u32]) -> usize {
    assert_eq!(order.len() as u32, t.n);
    match kind {
        BKind::Bdd => {
            let mut inner = HashSet::new();
            let mut terms = HashSet::new();
            fn go(t: TT, lvl: usize, order: &[u32], inner: &mut HashSet<TT>, terms: &mut HashSet<bool>) {
                if t.is_zero() {
                    terms.insert(false);
                    return;
                }
                if t.is_one() {
                    terms.insert(true);
                    return;
                }
                let mut l = lvl;
                while !t.depends(order[l]) {
                    l += 1;
                }
                if !inner.insert(t) {
                    return;
                }
                go(t.cof(order[l], true), l + 1, order, inner, terms);
                go(t.cof(order[l], false), l + 1, order, inner, terms);
            }
            go(*t, 0, order, &mut inner, &mut terms);
            inner.len() + terms.len()
        }
        BKind::Bcdd => {
            let mut inner = HashSet::new();
            fn norm(t: TT) -> TT {
                // representative of {t, not t}: the one that is false on the all-zero assignment
                if t.get(0) { t.not() } else { t }
            }
            fn go(t: TT, lvl: usize, order: &[u32], inner: &mut HashSet<TT>) {
                if t.is_zero() || t.is_one() {
                    return;
                }
                let mut l = lvl;
                while !t.depends(order[l]) {
                    l += 1;
                }
                if !inner.insert(norm(t)) {
                    return;
                }
                go(t.cof(order[l], true), l + 1, order, inner);
                go(t.cof(order[l], false), l + 1, order, inner);
            }
            go(*t, 0, order, &mut inner);
            inner.len() + 1
        }
        BKind::Zbdd => {
            // families: table over all n vars, bits only where "already passed"
            // variables are 0.
            let mut inner = HashSet::new();
            let mut terms = HashSet::new();
            fn go(t: TT, lvl: usize, order: &[u32], inner: &mut HashSet<TT>, terms: &mut HashSet<bool>) {
                if t.is_zero() {
                    terms.insert(false);
                    return;
                }
                // base = only the all-zero assignment
                if t.popcount() == 1 && t.get(0) {
                    terms.insert(true);
                    return;
                }
                let mut l = lvl;
                // skip levels whose variable occurs in no member
                while t.zcof(order[l], true).is_zero() {
                    l += 1;
                }
                if !inner.insert(t) {
                    return;
                }
                go(t.zcof(order[l], true), l + 1, order, inner, terms);
                go(t.zcof(order[l], false), l + 1, order, inner, terms);
            }
            go(*t, 0, order, &mut inner, &mut terms);
            inner.len() + terms.len()
        }
    }
}

/// Number of distinct inner nodes in the shared reduced diagram of all `tables`
/// under `order` (what a manager holds after a garbage collection when exactly
/// these functions are referenced).
pub fn ref_inner_nodes(kind: BKind, tables: &[TT], order: &[u32]) -> usize {
    let mut inner: HashSet<TT> = HashSet::new();
    fn go(kind: BKind, t: TT, lvl: usize, order: &[u32], inner: &mut HashSet<TT>) {
        match kind {
            BKind::Bdd | BKind::Bcdd => {
                if t.is_zero() || t.is_one() {
                    return;
                }
                let mut l = lvl;
                while !t.depends(order[l]) {
                    l += 1;
                }
                let key = if kind == BKind::Bcdd && t.get(0) { t.not() } else { t };
                if !inner.insert(key) {
                    return;
                }
                go(kind, t.cof(order[l], true), l + 1, order, inner);
                go(kind, t.cof(order[l], false), l + 1, order, inner);
            }
            BKind::Zbdd => {
                if t.is_zero() || (t.popcount() == 1 && t.get(0)) {
                    return;
                }
                let mut l = lvl;
                while t.zcof(order[l], true).is_zero() {
                    l += 1;
                }
                if !inner.insert(t) {
                    return;
                }
                go(kind, t.zcof(order[l], true), l + 1, order, inner);
                go(kind, t.zcof(order[l], false), l + 1, order, inner);
            }
        }
    }
    for t in tables {
        go(kind, *t, 0, order, &mut inner);
    }
    inner.len()
}

/// All permutations of 0..n
pub fn permutations(n: u32) -> Vec<Vec<u32>> {
    fn go(cur: &mut Vec<u32>, used: &mut Vec<bool>, n: u32, out: &mut Vec<Vec<u32>>) {
        if cur.len() as u32 == n {
            out.push(cur.clone());
            return;
        }
        for v in 0..n {
            if !used[v as usize] {
                used[v as usize] = true;
                cur.push(v);
                go(cur, used, n, out);
                cur.pop();
                used[v as usize] = false;
            }
        }
    }
    let mut out = vec![];
    go(&mut vec![], &mut vec![false; n as usize], n, &mut out);
    out
}

#[cfg(test)]
mod tests {
    use super::*;
    #[test]
    fn basic() {
        let x0 = TT::var(3, 0);
        let x1 = TT::var(3, 1);
        let x2 = TT::var(3, 2);
        assert_eq!(x0.w[0], 0xaa);
        assert_eq!(x1.w[0], 0xcc);
        assert_eq!(x2.w[0], 0xf0);
        assert_eq!(TT::one(3).w[0], 0xff);
        assert_eq!(x0.not().w[0], 0x55);
        let f = x0.and(&x1).or(&x2);
        assert_eq!(f.cof(2, true), TT::one(3));
        assert_eq!(f.cof(2, false), x0.and(&x1));
        // BDD of x0&x1|x2 under identity order: nodes x0,x1,x2 + 2 terminals
        assert_eq!(ref_node_count(BKind::Bdd, &f, &[0, 1, 2]), 5);
        assert_eq!(ref_node_count(BKind::Bcdd, &f, &[0, 1, 2]), 4);
        // xor of 3 vars: BDD 1+2+2 inner +2 = 7, BCDD 3+1
        let g = x0.xor(&x1).xor(&x2);
        assert_eq!(ref_node_count(BKind::Bdd, &g, &[0, 1, 2]), 7);
        assert_eq!(ref_node_count(BKind::Bcdd, &g, &[2, 0, 1]), 4);
        // ZBDD: function x0 over 3 vars = all sets containing 0:
        // node x0 (hi=taut over {1,2}, lo=empty), taut nodes for 1,2 : 3 inner + Base + Empty
        assert_eq!(ref_node_count(BKind::Zbdd, &x0, &[0, 1, 2]), 5);
        // singleton {0}: one node + base + empty
        let s0 = TT::from_fn(3, |a| a == 1);
        assert_eq!(ref_node_count(BKind::Zbdd, &s0, &[0, 1, 2]), 3);
        assert_eq!(ref_node_count(BKind::Zbdd, &TT::zero(3), &[0, 1, 2]), 1);
        assert_eq!(ref_node_count(BKind::Bdd, &TT::zero(3), &[0, 1, 2]), 1);
        assert_eq!(ref_node_count(BKind::Bcdd, &TT::zero(3), &[0, 1, 2]), 1);
        assert_eq!(permutations(3).len(), 6);
        let t7 = TT::var(7, 6);
        assert_eq!(t7.w[1], !0);
        assert_eq!(t7.w[0], 0);
        assert_eq!(t7.not().w[0], !0);
        assert!(TT::one(7).is_one());
        assert_eq!(TT::cube(3, &[Some(true), None, Some(false)]).as_cube(), Some(vec![Some(true), None, Some(false)]));
        assert_eq!(f.as_cube(), None);
    }
}
