//! Running histories: every case executes in its own forked process so that
//! aborts (OxiDD aborts on panics inside gc/reorder) become ordinary verdicts
//! that proptest can shrink.

use std::io::Write;

use serde_json::{Value, json};

use crate::engine::*;
use crate::hist::*;
use crate::kinds::*;

#[derive(Default, Clone, Debug, serde::Serialize, serde::Deserialize)]
pub struct CaseStats {
    pub steps: u64,
    pub comparisons: u64,
    pub gcs: u64,
    pub gc_removed: u64,
    pub gc_with_live: u64,
    pub reorders: u64,
    pub reorders_effective: u64,
    pub add_vars: u64,
    pub rebuilds_after_event: u64,
    pub revived_after_gc: u64,
    pub audits: u64,
    pub audits_with_dead: u64,
    pub equal_pairs: u64,
    pub equal_pairs_after_event: u64,
    pub repeats: u64,
    pub repeats_after_event: u64,
    pub subst_reuse: u64,
    pub quant: u64,
    pub max_nodes: usize,
    pub level_ne_var: bool,
    pub excluded: u64,
    pub digest: u64,
    pub binpairs: u64,
    pub subst_alt: u64,
    #[serde(default)]
    pub dump_rounds: u64,
    #[serde(default)]
    pub dump_rounds_after_event: u64,
}

impl From<&Stats> for CaseStats {
    fn from(s: &Stats) -> Self {
        CaseStats {
            steps: s.steps,
            comparisons: s.comparisons,
            gcs: s.gcs,
            gc_removed: s.gc_removed,
            gc_with_live: s.gc_with_live,
            reorders: s.reorders,
            reorders_effective: s.reorders_effective,
            add_vars: s.add_vars,
            rebuilds_after_event: s.rebuilds_after_event,
            revived_after_gc: s.revived_after_gc,
            audits: s.audits,
            audits_with_dead: s.audits_with_dead,
            equal_pairs: s.equal_pairs,
            equal_pairs_after_event: s.equal_pairs_after_event,
            repeats: s.repeats,
            repeats_after_event: s.repeats_after_event,
            subst_reuse: s.subst_reuse,
            quant: s.quant,
            max_nodes: s.max_nodes,
            level_ne_var: s.level_ne_var,
            excluded: s.excluded,
            digest: s.digest,
            binpairs: s.binpairs,
            subst_alt: s.subst_alt,
            dump_rounds: s.dump_rounds,
            dump_rounds_after_event: s.dump_rounds_after_event,
        }
    }
}

/// Execute one history in a forked child. Ok(stats) or Err(message).
pub fn run_case_isolated<K: BoolKind>(case: &Case, checks: Checks, skip_zbdd_reorder: bool, extra: &dyn Fn(&mut Hist<K>) -> Result<(), String>) -> Result<CaseStats, String> {
    let out = isolated(120, |w: &mut dyn Write| {
        let mut h = Hist::<K>::new(&case.cfg, checks);
        h.skip_zbdd_reorder = skip_zbdd_reorder;
        let r = h.run(&case.ops).and_then(|_| extra(&mut h));
        let st = CaseStats::from(&h.stats);
        let _ = writeln!(w, "{}", json!({"ok": r.is_ok(), "msg": r.err(), "stats": st}));
        // leak the manager: dropping it is not part of the history, and exit is quicker
        std::mem::forget(h);
    });
    match out.end {
        End::Exit(0) => {
            for l in &out.lines {
                if let Ok(v) = serde_json::from_str::<Value>(l) {
                    if v.get("ok").is_some() {
                        if v["ok"].as_bool() == Some(true) {
                            return Ok(serde_json::from_value(v["stats"].clone()).unwrap_or_default());
                        } else {
                            return Err(v["msg"].as_str().unwrap_or("?").to_string());
                        }
                    }
                }
            }
            Err("crash: child exited 0 without a verdict".into())
        }
        End::Timeout => Err("timeout: watchdog expired (inconclusive)".into()),
        End::Exit(c) => {
            let p = out.lines.iter().filter_map(|l| serde_json::from_str::<Value>(l).ok()).find_map(|v| v.get("panic").and_then(|p| p.as_str()).map(|s| s.to_string()));
            Err(format!("crash: child exited with code {c}; panic: {}", p.unwrap_or_default()))
        }
        End::Signal(s) => Err(format!("crash: child killed by signal {s} (abort = 6, segv = 11)")),
    }
}

/// category = text before the first ':' of an error message
pub fn category(msg: &str) -> String {
    msg.split(':').next().unwrap_or("x").trim().replace(' ', "-")
}

pub struct HistJob {
    pub prop: &'static str,
    pub seed: u64,
    pub cases: u32,
    pub weights: Weights,
    pub nmin: u32,
    pub nmax: u32,
    pub len: std::ops::Range<usize>,
    pub threads: Vec<u32>,
    pub caches: Vec<usize>,
    pub checks: Checks,
}

/// Runs a proptest campaign of histories for kind K, accumulating into `rep`.
/// `nontrivial` decides from the statistics of a case whether it counts.
pub fn hist_campaign<K: BoolKind>(job: &HistJob, rep: &mut Report, nontrivial: &dyn Fn(&CaseStats) -> bool, extra: &dyn Fn(&mut Hist<K>) -> Result<(), String>) {
    let strat = case_strategy(job.weights, job.nmin, job.nmax, job.len.clone(), job.threads.clone(), job.caches.clone());
    let mut agg: std::collections::BTreeMap<String, u64> = Default::default();
    let mut nt = 0u64;
    let mut evals = 0u64;
    let mut samples: Vec<Value> = vec![];
    let mut timeouts = 0;
    let mut excluded = 0u64;
    let skip = known(job.prop, "zbdd-reorder-nonempty");
    let out = crate::pt::run2(
        job.seed,
        job.cases,
        &strat,
        |_c| {},
        |c, r: &Result<CaseStats, String>| {
            if let Ok(s) = r {
                evals += s.comparisons.max(1);
                excluded += s.excluded;
                if nontrivial(s) {
                    nt += 1;
                    if samples.len() < 2 {
                        samples.push(json!({"kind": K::NAME, "cfg": c.cfg, "ops": c.ops}));
                    }
                }
                let v = serde_json::to_value(s).unwrap();
                for (k, x) in v.as_object().unwrap() {
                    if k == "digest" {
                        continue;
                    }
                    let add = x.as_u64().unwrap_or_else(|| if x.as_bool() == Some(true) { 1 } else { 0 });
                    *agg.entry(format!("{}.{k}", K::NAME)).or_insert(0) += add;
                }
            }
        },
        |c| {
            let r = run_case_isolated::<K>(c, job.checks, skip, extra);
            if let Err(m) = &r {
                if m.starts_with("timeout") {
                    // do not let a watchdog expiry count as a failing case
                    return Ok(CaseStats::default());
                }
            }
            r
        },
    );
    let _ = &mut timeouts;
    rep.evaluations += evals;
    rep.nontrivial += nt;
    rep.excluded_by_known_finding += excluded;
    rep.class_n(&format!("{}.cases", K::NAME), out.cases);
    for (k, v) in agg {
        rep.class_n(&k, v);
    }
    for s in samples {
        rep.sample(s);
    }
    if let Some((c, msg)) = out.failure {
        let cat = category(&msg);
        rep.viol(format!("{}/{}/{}", job.prop, K::NAME, cat), msg, json!({"kind": K::NAME, "cfg": c.cfg, "ops": c.ops}));
    }
}

/// Replay a recorded history case (from a replay file's "case" object)
pub fn replay_case<K: BoolKind>(prop: &str, case: &Value, checks: Checks) -> Result<CaseStats, String> {
    let cfg: HCfg = serde_json::from_value(case["cfg"].clone()).map_err(|e| format!("bad replay cfg: {e}"))?;
    let ops: Vec<Op> = serde_json::from_value(case["ops"].clone()).map_err(|e| format!("bad replay ops: {e}"))?;
    run_case_isolated::<K>(&Case { cfg, ops }, checks, known(prop, "zbdd-reorder-nonempty"), &|_| Ok(()))
}
