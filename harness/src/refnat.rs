//! Independent big natural numbers (little-endian Vec<u64>) — the oracle for
//! OxiDD's `Natural`. Deliberately simple; no OxiDD or dashu code involved.

#[derive(Clone, PartialEq, Eq, Debug, Hash)]
pub struct RefNat(pub Vec<u64>); // no trailing zero digits; zero = empty

impl RefNat {
    pub fn zero() -> Self {
        RefNat(vec![])
    }
    pub fn from_u128(x: u128) -> Self {
        RefNat(vec![x as u64, (x >> 64) as u64]).norm()
    }
    pub fn from_digits(d: &[u64]) -> Self {
        RefNat(d.to_vec()).norm()
    }
    fn norm(mut self) -> Self {
        while self.0.last() == Some(&0) {
            self.0.pop();
        }
        self
    }
    pub fn is_zero(&self) -> bool {
        self.0.is_empty()
    }
    pub fn bits(&self) -> u64 {
        match self.0.last() {
            None => 0,
            Some(&d) => 64 * self.0.len() as u64 - d.leading_zeros() as u64,
        }
    }
    pub fn bit(&self, i: u64) -> bool {
        let w = (i / 64) as usize;
        w < self.0.len() && (self.0[w] >> (i % 64)) & 1 == 1
    }
    pub fn trailing_zeros(&self) -> u64 {
        let mut t = 0;
        for &d in &self.0 {
            if d == 0 {
                t += 64;
            } else {
                return t + d.trailing_zeros() as u64;
            }
        }
        0
    }
    pub fn add(&self, o: &RefNat) -> RefNat {
        let n = self.0.len().max(o.0.len());
        let mut r = Vec::with_capacity(n + 1);
        let mut carry = 0u128;
        for i in 0..n {
            let s = *self.0.get(i).unwrap_or(&0) as u128 + *o.0.get(i).unwrap_or(&0) as u128 + carry;
            r.push(s as u64);
            carry = s >> 64;
        }
        if carry > 0 {
            r.push(carry as u64);
        }
        RefNat(r).norm()
    }
    pub fn shl(&self, k: u64) -> RefNat {
        if self.is_zero() {
            return RefNat::zero();
        }
        let (w, b) = ((k / 64) as usize, (k % 64) as u32);
        let mut r = vec![0u64; w];
        let mut carry = 0u64;
        for &d in &self.0 {
            if b == 0 {
                r.push(d);
            } else {
                r.push((d << b) | carry);
                carry = d >> (64 - b);
            }
        }
        if carry > 0 {
            r.push(carry);
        }
        RefNat(r).norm()
    }
    /// exact right shift: None if a 1-bit would be lost
    pub fn shr_exact(&self, k: u64) -> Option<RefNat> {
        if self.is_zero() {
            return Some(RefNat::zero());
        }
        if self.trailing_zeros() < k {
            return None;
        }
        let (w, b) = ((k / 64) as usize, (k % 64) as u32);
        let src = &self.0[w..];
        let mut r = Vec::with_capacity(src.len());
        for i in 0..src.len() {
            if b == 0 {
                r.push(src[i]);
            } else {
                let hi = if i + 1 < src.len() { src[i + 1] << (64 - b) } else { 0 };
                r.push((src[i] >> b) | hi);
            }
        }
        Some(RefNat(r).norm())
    }
    pub fn cmp(&self, o: &RefNat) -> std::cmp::Ordering {
        if self.0.len() != o.0.len() {
            return self.0.len().cmp(&o.0.len());
        }
        for i in (0..self.0.len()).rev() {
            if self.0[i] != o.0[i] {
                return self.0[i].cmp(&o.0[i]);
            }
        }
        std::cmp::Ordering::Equal
    }
    fn divrem_small(&self, d: u64) -> (RefNat, u64) {
        let mut q = vec![0u64; self.0.len()];
        let mut rem = 0u128;
        for i in (0..self.0.len()).rev() {
            let cur = (rem << 64) | self.0[i] as u128;
            q[i] = (cur / d as u128) as u64;
            rem = cur % d as u128;
        }
        (RefNat(q).norm(), rem as u64)
    }
    pub fn to_decimal(&self) -> String {
        if self.is_zero() {
            return "0".into();
        }
        const B: u64 = 10_000_000_000_000_000_000;
        let mut parts = vec![];
        let mut cur = self.clone();
        while !cur.is_zero() {
            let (q, r) = cur.divrem_small(B);
            parts.push(r);
            cur = q;
        }
        let mut s = format!("{}", parts.pop().unwrap());
        while let Some(p) = parts.pop() {
            s += &format!("{p:019}");
        }
        s
    }
    pub fn to_radix_pow2(&self, bits_per_digit: u32, upper: bool) -> String {
        if self.is_zero() {
            return "0".into();
        }
        let total = self.bits();
        let ndig = (total + bits_per_digit as u64 - 1) / bits_per_digit as u64;
        let mut s = String::new();
        for i in (0..ndig).rev() {
            let mut v = 0u32;
            for b in (0..bits_per_digit).rev() {
                v = (v << 1) | self.bit(i * bits_per_digit as u64 + b as u64) as u32;
            }
            let c = std::char::from_digit(v, 16).unwrap();
            s.push(if upper { c.to_ascii_uppercase() } else { c });
        }
        s
    }
    /// round to nearest, ties to even
    pub fn to_f64(&self) -> f64 {
        let bits = self.bits();
        if bits == 0 {
            return 0.0;
        }
        if bits <= 64 {
            // u64 -> f64 conversion in Rust is correctly rounded (nearest even)
            return self.0[0] as f64;
        }
        if bits > 1100 {
            return f64::INFINITY;
        }
        // take the top 64 bits, track stickiness
        let shift = bits - 64;
        let top = self.shr_trunc(shift);
        let sticky = self.trailing_zeros() < shift;
        let mut m = top.0[0];
        // reduce to 53 bits + round
        let low = m & ((1 << 11) - 1);
        m >>= 11;
        let half = 1u64 << 10;
        let round_up = low > half || (low == half && (sticky || m & 1 == 1));
        if round_up {
            m += 1;
        }
        // value = m * 2^(shift + 11); m may be 2^53 now, still exactly representable
        let e = shift + 11;
        (m as f64) * pow2(e)
    }
    fn shr_trunc(&self, k: u64) -> RefNat {
        let (w, b) = ((k / 64) as usize, (k % 64) as u32);
        if w >= self.0.len() {
            return RefNat::zero();
        }
        let src = &self.0[w..];
        let mut r = Vec::with_capacity(src.len());
        for i in 0..src.len() {
            if b == 0 {
                r.push(src[i]);
            } else {
                let hi = if i + 1 < src.len() { src[i + 1] << (64 - b) } else { 0 };
                r.push((src[i] >> b) | hi);
            }
        }
        RefNat(r).norm()
    }
}

fn pow2(e: u64) -> f64 {
    if e > 1023 {
        return f64::INFINITY;
    }
    f64::from_bits((e + 1023) << 52)
}

#[cfg(test)]
mod tests {
    use super::*;
    #[test]
    fn basics() {
        let a = RefNat::from_u128(u128::MAX);
        let b = a.add(&RefNat::from_u128(1));
        assert_eq!(b.0, vec![0, 0, 1]);
        assert_eq!(b.to_decimal(), "340282366920938463463374607431768211456");
        assert_eq!(b.shr_exact(128), Some(RefNat::from_u128(1)));
        assert_eq!(b.shr_exact(129), None);
        assert_eq!(RefNat::from_u128(255).to_radix_pow2(4, false), "ff");
        assert_eq!(RefNat::from_u128(8).to_radix_pow2(3, false), "10");
        assert_eq!(RefNat::from_u128(5).to_radix_pow2(1, false), "101");
        assert_eq!(RefNat::from_u128(1 << 70).to_f64(), (1u128 << 70) as f64);
        let x = (1u128 << 100) + (1u128 << 47) + 1; // just above a tie
        assert_eq!(RefNat::from_u128(x).to_f64(), x as f64);
        let y = (1u128 << 100) + (1u128 << 47); // exact tie
        assert_eq!(RefNat::from_u128(y).to_f64(), y as f64);
        let z = (1u128 << 100) + (3u128 << 47);
        assert_eq!(RefNat::from_u128(z).to_f64(), z as f64);
        assert_eq!(RefNat::from_u128(1).shl(200).bits(), 201);
    }
}
