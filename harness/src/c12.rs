//! C12 — model counting exact for every number type, with reused caches; Natural exact.

use std::hash::{BuildHasherDefault, Hash, Hasher};
use std::io::Write;
use std::time::Instant;

use oxidd::util::num::{F64, Natural, Saturating};
use oxidd::util::{FxHasher, SatCountCache};
use oxidd::BooleanFunction;
use proptest::prelude::*;
use serde_json::{Value, json};

use crate::build::*;
use crate::c02::{all256, order_from_keys, tt_from_words};
use crate::engine::*;
use crate::kinds::*;
use crate::model::*;
use crate::refnat::RefNat;

type BH = BuildHasherDefault<FxHasher>;

// ---------------------------------------------------------------------------
// Natural vs RefNat
// ---------------------------------------------------------------------------

fn nat_of(r: &RefNat) -> Natural {
    Natural::from_le_digits(&r.0)
}

/// decode a Natural through its documented representation (mantissa x 2^exp)
fn ref_of(n: &Natural) -> Result<Option<RefNat>, String> {
    if n.is_nan() {
        return Ok(None);
    }
    let m = n.mantissa();
    let mr = RefNat::from_digits(m);
    if mr.is_zero() {
        if n.exp() != 0 {
            return Err(format!("repr: zero with exponent {}", n.exp()));
        }
        return Ok(Some(mr));
    }
    if m[0] & 1 == 0 {
        return Err(format!("repr: mantissa {m:x?} is even (exp {})", n.exp()));
    }
    if *m.last().unwrap() == 0 {
        return Err(format!("repr: mantissa() {m:x?} has a leading zero digit"));
    }
    if n.exp() > 1 << 20 {
        return Err(format!("repr: unexpected exponent {}", n.exp()));
    }
    Ok(Some(mr.shl(n.exp())))
}

fn boundary() -> Vec<RefNat> {
    let mut v = vec![RefNat::zero(), RefNat::from_u128(1)];
    for k in [1u64, 2, 31, 32, 63, 64, 65, 127, 128, 129, 191, 192, 255, 256] {
        let p = RefNat::from_u128(1).shl(k);
        // 2^k - 1: all ones
        let ones = RefNat::from_digits(&(0..((k + 63) / 64)).map(|i| if (i + 1) * 64 <= k { u64::MAX } else { (1u64 << (k % 64)) - 1 }).collect::<Vec<_>>());
        v.push(ones);
        v.push(p.add(&RefNat::from_u128(1)));
        v.push(p);
    }
    // a few with many trailing zeros and mixed digits
    v.push(RefNat::from_digits(&[0, 0, 0x8000_0000_0000_0001]));
    v.push(RefNat::from_digits(&[0xdead_beef, 0, 0x1]));
    v.push(RefNat::from_u128(3u128 << 70));
    v.push(RefNat::from_u128(0xffff_ffff_ffff_ffffu128 << 64));
    v.dedup();
    v
}

struct Pad<'a>(&'a str, &'a str);
impl std::fmt::Display for Pad<'_> {
    fn fmt(&self, f: &mut std::fmt::Formatter<'_>) -> std::fmt::Result {
        f.pad_integral(true, self.0, self.1)
    }
}
macro_rules! fmt_variants {
    ($val:expr, $digits:expr, $prefix:expr, $spec:literal) => {{
        // (actual, expected) for several flag combinations of one radix
        vec![
            (format!(concat!("{:", $spec, "}"), $val), format!("{}", Pad("", $digits)), concat!("{:", $spec, "}")),
            (format!(concat!("{:#", $spec, "}"), $val), format!("{:#}", Pad($prefix, $digits)), concat!("{:#", $spec, "}")),
            (format!(concat!("{:>70", $spec, "}"), $val), format!("{:>70}", Pad("", $digits)), concat!("{:>70", $spec, "}")),
            (format!(concat!("{:*<9", $spec, "}"), $val), format!("{:*<9}", Pad("", $digits)), concat!("{:*<9", $spec, "}")),
            (format!(concat!("{:^#33", $spec, "}"), $val), format!("{:^#33}", Pad($prefix, $digits)), concat!("{:^#33", $spec, "}")),
            (format!(concat!("{:#075", $spec, "}"), $val), format!("{:#075}", Pad($prefix, $digits)), concat!("{:#075", $spec, "}")),
            (format!(concat!("{:+", $spec, "}"), $val), format!("{:+}", Pad("", $digits)), concat!("{:+", $spec, "}")),
        ]
    }};
}

fn check_unary(r: &RefNat, rep: &mut Report) -> Result<(), String> {
    let n = nat_of(r);
    rep.evaluations += 1;
    match ref_of(&n)? {
        Some(x) if x == *r => {}
        x => return Err(format!("from_le_digits: {:x?} decodes as {x:?}", r.0)),
    }
    // conversions
    if r.bits() <= 64 {
        let v = r.0.first().copied().unwrap_or(0);
        if ref_of(&Natural::from(v))? != Some(r.clone()) {
            return Err(format!("from-u64: Natural::from({v}u64) decodes as {:?}", ref_of(&Natural::from(v))));
        }
        if v <= u32::MAX as u64 && ref_of(&Natural::from(v as u32))? != Some(r.clone()) {
            return Err(format!("from-u32: Natural::from({v}u32)"));
        }
    }
    let as_u64 = u64::try_from(&n).ok();
    let exp_u64 = if r.bits() <= 64 { Some(r.0.first().copied().unwrap_or(0)) } else { None };
    if as_u64 != exp_u64 {
        return Err(format!("to-u64: u64::try_from({}) = {as_u64:?}, expected {exp_u64:?}", r.to_decimal()));
    }
    let as_u128 = u128::try_from(&n).ok();
    let exp_u128 = if r.bits() <= 128 { Some(r.0.first().copied().unwrap_or(0) as u128 | (r.0.get(1).copied().unwrap_or(0) as u128) << 64) } else { None };
    if as_u128 != exp_u128 {
        return Err(format!("to-u128: u128::try_from({}) = {as_u128:?}, expected {exp_u128:?}", r.to_decimal()));
    }
    if let Some(v) = exp_u128 {
        let m = Natural::from(v);
        match ref_of(&m) {
            Ok(Some(x)) if x == *r && m == n => {}
            other => return Err(format!("from-u128: Natural::from({v}u128) decodes as {other:?} / == from_le_digits: {}", m == n)),
        }
    }
    let f = f64::from(&n);
    if f.to_bits() != r.to_f64().to_bits() {
        return Err(format!("to-f64: f64::from({}) = {f:e}, correctly rounded value is {:e}", r.to_decimal(), r.to_f64()));
    }
    if n.bit_width() != r.bits() as u128 {
        return Err(format!("bit-width: bit_width({}) = {}", r.to_decimal(), n.bit_width()));
    }
    // textual output
    let dec = r.to_decimal();
    let mut all = fmt_variants!(n, &dec, "", "");
    all.extend(fmt_variants!(n, &r.to_radix_pow2(1, false), "0b", "b"));
    all.extend(fmt_variants!(n, &r.to_radix_pow2(3, false), "0o", "o"));
    all.extend(fmt_variants!(n, &r.to_radix_pow2(4, false), "0x", "x"));
    all.extend(fmt_variants!(n, &r.to_radix_pow2(4, true), "0x", "X"));
    for (got, exp, spec) in all {
        rep.evaluations += 1;
        if got != exp {
            return Err(format!("fmt: format!(\"{spec}\", {dec}) = {got:?}, expected {exp:?}"));
        }
    }
    // shifts
    for k in [0u64, 1, 63, 64, 65, 200] {
        rep.evaluations += 2;
        let s = nat_of(r) << k;
        if ref_of(&s)? != Some(r.shl(k)) {
            return Err(format!("shl: {dec} << {k} decodes as {:?}", ref_of(&s)));
        }
        let s32 = nat_of(r) << (k as u32);
        if s32 != s {
            return Err(format!("shl: << {k}u32 differs from << {k}u64"));
        }
        let t = nat_of(r) >> k;
        let exp = r.shr_exact(k);
        if ref_of(&t)? != exp {
            return Err(format!("shr: {dec} >> {k} decodes as {:?}, expected {:?} (NaN iff a 1-bit is lost)", ref_of(&t), exp.map(|e| e.to_decimal())));
        }
    }
    // clone
    let c = n.clone();
    if c != n || ref_of(&c)? != Some(r.clone()) {
        return Err(format!("clone: clone of {dec} differs"));
    }
    Ok(())
}

fn hash_of<T: Hash>(t: &T) -> u64 {
    let mut h = std::collections::hash_map::DefaultHasher::new();
    t.hash(&mut h);
    h.finish()
}

fn check_binary(a: &RefNat, b: &RefNat, rep: &mut Report) -> Result<(), String> {
    let (x, y) = (nat_of(a), nat_of(b));
    rep.evaluations += 3;
    let s = nat_of(a) + nat_of(b);
    let exp = a.add(b);
    if ref_of(&s)? != Some(exp.clone()) {
        return Err(format!("add: {} + {} decodes as {:?}, expected {}", a.to_decimal(), b.to_decimal(), ref_of(&s).map(|o| o.map(|r| r.to_decimal())), exp.to_decimal()));
    }
    if (x == y) != (a == b) {
        return Err(format!("eq: {} == {} is {}", a.to_decimal(), b.to_decimal(), x == y));
    }
    if x.partial_cmp(&y) != Some(a.cmp(b)) {
        return Err(format!("cmp: {} partial_cmp {} = {:?}", a.to_decimal(), b.to_decimal(), x.partial_cmp(&y)));
    }
    if a == b && hash_of(&x) != hash_of(&y) {
        return Err("hash: equal naturals hash differently".into());
    }
    // sums compare/hash like directly constructed values (normalisation)
    let direct = nat_of(&exp);
    if s != direct || hash_of(&s) != hash_of(&direct) || s.partial_cmp(&direct) != Some(std::cmp::Ordering::Equal) {
        return Err(format!("add-normalised: {} + {} is not equal (==/hash/cmp) to the directly constructed sum", a.to_decimal(), b.to_decimal()));
    }
    Ok(())
}

/// run a pure check; a panic inside OxiDD's number code becomes an error of its own category
fn no_panic<T>(f: impl FnOnce() -> Result<T, String>) -> Result<T, String> {
    match std::panic::catch_unwind(std::panic::AssertUnwindSafe(f)) {
        Ok(r) => r,
        Err(e) => {
            let m = panic_msg(&e);
            let first = m.lines().next().unwrap_or("").to_string();
            let short: String = first.chars().map(|c| if c.is_ascii_alphanumeric() { c } else { '-' }).take(40).collect();
            Err(format!("panic-{short}: the operation panicked: {first}"))
        }
    }
}

fn natural_boundary(rep: &mut Report) {
    let b = boundary();
    for r in &b {
        if let Err(m) = no_panic(|| check_unary(r, rep)) {
            rep.viol(format!("C12/natural/{}", crate::hrun::category(&m)), m, json!({"value_digits_le": format!("{:x?}", r.0)}));
        }
    }
    for x in &b {
        for y in &b {
            if let Err(m) = no_panic(|| check_binary(x, y, rep)) {
                rep.viol(format!("C12/natural/{}", crate::hrun::category(&m)), m, json!({"a_digits_le": format!("{:x?}", x.0), "b_digits_le": format!("{:x?}", y.0)}));
            }
            if x.0.len() != y.0.len() || x.add(y).0.len() > x.0.len().max(y.0.len()) {
                rep.nontrivial += 1;
            }
        }
    }
    // NaN behaviour: exponent overflow and inexact shift
    rep.evaluations += 4;
    let nan = Natural::from(1u64) << u64::MAX;
    if !nan.is_nan() {
        rep.viol("C12/natural/nan", "1 << u64::MAX is not NaN (exponent overflow)", json!({}));
    }
    if !(Natural::from(3u64) >> 1u32).is_nan() {
        rep.viol("C12/natural/nan", "3 >> 1 is not NaN (inexact right shift)", json!({}));
    }
    if (Natural::from(0u64) >> 5u32).is_nan() || (Natural::from(0u64) << 5u32).is_nan() {
        rep.viol("C12/natural/nan", "0 >> 5 or 0 << 5 is NaN", json!({}));
    }
    if (nan.clone() + Natural::from(1u64)).is_nan() == false || nan.partial_cmp(&Natural::from(1u64)).is_some() {
        rep.viol("C12/natural/nan", "NaN + 1 is not NaN, or NaN is comparable", json!({}));
    }
    rep.class_n("natural.boundary_values", b.len() as u64);
    rep.class_n("natural.boundary_pairs", (b.len() * b.len()) as u64);
    rep.sample(json!({"suite": "natural boundary", "example": {"a": "2^64-1", "b": "2^64+1", "sum": RefNat::from_u128(u64::MAX as u128).add(&RefNat::from_u128((1u128 << 64) + 1)).to_decimal()}}));
}

#[derive(Clone, Debug)]
pub enum NatOp {
    Add(Vec<u64>, u8),
    Shl(u16),
    Shr(u16),
}


/// one generated case of the Natural suite (also the entry point of the fuzz target `natural`)
pub fn natural_case(ra: &RefNat, rb: &RefNat, ops: &[NatOp]) -> Result<(), String> {
    no_panic(|| {
        let mut r = Report::default();
        let (ra, rb) = (ra.clone(), rb.clone());
            check_unary(&ra, &mut r)?;
            check_binary(&ra, &rb, &mut r)?;
            // op sequence
            let mut acc = nat_of(&ra);
            let mut racc = Some(ra.clone());
            for op in ops {
                match op {
                    NatOp::Add(d, _) => {
                        let x = RefNat::from_digits(d);
                        acc = acc + nat_of(&x);
                        racc = racc.map(|r| r.add(&x));
                    }
                    NatOp::Shl(k) => {
                        acc = acc << (*k as u32);
                        racc = racc.map(|r| r.shl(*k as u64));
                    }
                    NatOp::Shr(k) => {
                        acc = acc >> (*k as u32);
                        racc = racc.and_then(|r| r.shr_exact(*k as u64));
                    }
                }
                if ref_of(&acc)? != racc {
                    return Err(format!("sequence: after {op:x?}: decodes as {:?}, expected {:?}", ref_of(&acc), racc));
                }
                if let Some(r) = &racc {
                    if format!("{acc}") != r.to_decimal() {
                        return Err(format!("fmt: Display after {op:x?} = {acc}, expected {}", r.to_decimal()));
                    }
                }
            }
            Ok(())
    })
}

fn natural_random(seed: u64, cases: u32, rep: &mut Report) {
    let digits = || (proptest::collection::vec(any::<u64>(), 0..8), 0u8..130).prop_map(|(mut d, tz)| {
        // force trailing zero bits / digit patterns
        if !d.is_empty() && tz < 64 {
            d[0] &= !0u64 << tz;
        }
        if tz > 100 && d.len() > 1 {
            d[0] = 0;
        }
        d
    });
    let strat = (digits(), digits(), proptest::collection::vec(prop_oneof![3 => (digits(), any::<u8>()).prop_map(|(d, k)| NatOp::Add(d, k)), 2 => (0u16..300).prop_map(NatOp::Shl), 2 => (0u16..300).prop_map(NatOp::Shr)], 0..12));
    let mut evals = 0u64;
    let out = crate::pt::run(
        seed,
        cases,
        &strat,
        |c| progress(&json!({"sig": "C12/natural/random/crash", "case": format!("{c:x?}")}).to_string()),
        |(a, b, ops)| natural_case(&RefNat::from_digits(a), &RefNat::from_digits(b), ops),
    );
    evals += out.cases * 60;
    rep.evaluations += evals;
    rep.nontrivial += out.cases;
    rep.class_n("natural.random_cases", out.cases);
    if let Some((c, msg)) = out.failure {
        rep.viol(format!("C12/natural/{}", crate::hrun::category(&msg)), msg, json!({"case": format!("{c:x?}")}));
    }
}

// ---------------------------------------------------------------------------
// sat_count
// ---------------------------------------------------------------------------

struct Caches {
    u64c: SatCountCache<Saturating<u64>, BH>,
    u128c: SatCountCache<Saturating<u128>, BH>,
    f64c: SatCountCache<F64, BH>,
    natc: SatCountCache<Natural, BH>,
    used: u64,
}

impl Caches {
    fn new(cache_all: bool) -> Self {
        let mut c = Caches { u64c: Default::default(), u128c: Default::default(), f64c: Default::default(), natc: Default::default(), used: 0 };
        c.u64c.cache_all = cache_all;
        c.u128c.cache_all = cache_all;
        c.f64c.cache_all = cache_all;
        c.natc.cache_all = cache_all;
        c
    }
}

/// exact expected count: popcount * 2^(vars - n)
fn check_count<F: BooleanFunction>(f: &F, models: u64, n: u32, vars: u32, caches: &mut Caches, is_false: bool) -> Result<(), String> {
    let exact = RefNat::from_u128(models as u128).shl((vars - n) as u64);
    caches.used += 1;
    let a = f.sat_count(vars, &mut caches.u64c).0;
    let exp64 = if vars < 64 { Some(exact.0.first().copied().unwrap_or(0)) } else { None };
    match exp64 {
        Some(e) if a != e => return Err(format!("u64: sat_count(vars={vars}) = {a}, exact {e}")),
        None if !(a == u64::MAX || (is_false && a == 0)) => return Err(format!("u64-saturation: sat_count(vars={vars}) = {a}, expected the saturation marker u64::MAX")),
        _ => {}
    }
    let b = f.sat_count(vars, &mut caches.u128c).0;
    let exp128 = if vars < 128 { Some(exact.0.first().copied().unwrap_or(0) as u128 | (exact.0.get(1).copied().unwrap_or(0) as u128) << 64) } else { None };
    match exp128 {
        Some(e) if b != e => return Err(format!("u128: sat_count(vars={vars}) = {b}, exact {e}")),
        None if !(b == u128::MAX || (is_false && b == 0)) => return Err(format!("u128-saturation: sat_count(vars={vars}) = {b}, expected u128::MAX")),
        _ => {}
    }
    let c = f.sat_count(vars, &mut caches.f64c).0;
    let rf = exact.to_f64();
    let ok = if rf.is_infinite() { c.is_infinite() && c > 0.0 } else { (c - rf).abs() <= rf * 2f64.powi(-45) };
    if !ok {
        return Err(format!("f64: sat_count(vars={vars}) = {c:e}, exact value is {rf:e}"));
    }
    let d = f.sat_count(vars, &mut caches.natc);
    match ref_of(&d)? {
        Some(x) if x == exact => {}
        x => return Err(format!("natural: sat_count(vars={vars}) decodes as {:?}, exact {}", x.map(|r| r.to_decimal()), exact.to_decimal())),
    }
    if format!("{d}") != exact.to_decimal() {
        return Err(format!("natural-display: sat_count(vars={vars}) prints {d}, exact {}", exact.to_decimal()));
    }
    Ok(())
}

fn exh3<K: BoolKind>(order: &[u32], cache_all: bool, rep: &mut Report) {
    let ctx = json!({"kind": K::NAME, "order": order, "cache_all": cache_all});
    progress(&json!({"sig": format!("C12/{}/crash", K::NAME), "ctx": ctx}).to_string());
    let mr = mk_manager::<K>(3, order, 1 << 12, 1 << 8, 1);
    let Some(fns) = all256::<K>(&mr, rep, &ctx) else { return };
    let mut caches = Caches::new(cache_all);
    let varsets: Vec<u32> = if K::KIND == BKind::Zbdd { vec![3] } else { vec![3, 4, 73, 1100, 3, 64, 63, 128, 127] };
    // phase 1: all functions, shared caches, alternating vars
    let mut step = 0u64;
    for round in 0..2 {
        for t in 0..256usize {
            for (vi, &vars) in varsets.iter().enumerate() {
                // alternate: not every function with every vars in the same order
                if (t + vi + round) % 2 == 1 && varsets.len() > 1 {
                    continue;
                }
                step += 1;
                rep.evaluations += 4;
                if let Err(m) = check_count(&fns[t], (t as u8).count_ones() as u64, 3, vars, &mut caches, t == 0) {
                    rep.viol(format!("C12/{}/{}", K::NAME, crate::hrun::category(&m)), format!("{m} [table {t:02x}, phase 1]"), json!({"ctx": ctx, "table": t, "vars": vars}));
                }
                if step > 1 {
                    rep.nontrivial += 1; // cache already holds entries from other handles / other vars
                }
            }
        }
    }
    // phase 2: recycle node ids: drop half of the functions, gc, churn, reorder, then count again with the same caches
    let mut fns: Vec<Option<K::F>> = fns.into_iter().map(Some).collect();
    for t in (0..256).step_by(2) {
        fns[t] = None;
    }
    K::gc(&mr);
    let vs = vars::<K>(&mr, 3);
    let churn: Vec<K::F> = (0..20).map(|i| vs[i % 3].xor(&vs[(i + 1) % 3]).unwrap().and(&vs[(i + 2) % 3].not().unwrap()).unwrap().or(&vs[i % 3]).unwrap()).collect();
    let rev: Vec<u32> = order.iter().rev().copied().collect();
    K::set_var_order(&mr, &rev, true);
    // rebuild the dropped functions (they get recycled slots)
    let mut memo = Default::default();
    for t in (0..256usize).step_by(2) {
        fns[t] = Some(from_shannon::<K>(&mr, &vs, &TT::from_u64(3, t as u64), &mut memo));
    }
    drop(memo);
    drop(churn);
    for t in 0..256usize {
        for &vars in varsets.iter().take(4) {
            rep.evaluations += 4;
            if let Err(m) = check_count(fns[t].as_ref().unwrap(), (t as u8).count_ones() as u64, 3, vars, &mut caches, t == 0) {
                rep.viol(format!("C12/{}/{}-after-gc-reorder", K::NAME, crate::hrun::category(&m)), format!("{m} [table {t:02x}, cache reused across gc + reorder with recycled node ids]"), json!({"ctx": ctx, "table": t, "vars": vars, "phase": 2}));
            }
            rep.nontrivial += 1;
        }
    }
    // phase 3: gc only (no reorder), again recycled ids
    for t in (1..256).step_by(2) {
        fns[t] = None;
    }
    K::gc(&mr);
    let mut memo = Default::default();
    for t in (1..256usize).step_by(2) {
        fns[t] = Some(from_shannon::<K>(&mr, &vs, &TT::from_u64(3, (255 - t) as u64), &mut memo));
    }
    drop(memo);
    for t in (1..256usize).step_by(2) {
        let tt = 255 - t;
        let vars = varsets[0];
        rep.evaluations += 4;
        if let Err(m) = check_count(fns[t].as_ref().unwrap(), (tt as u8).count_ones() as u64, 3, vars, &mut caches, tt == 0) {
            rep.viol(format!("C12/{}/{}-after-gc", K::NAME, crate::hrun::category(&m)), format!("{m} [table {tt:02x}, cache reused across gc with recycled node ids]"), json!({"ctx": ctx, "table": tt, "vars": vars, "phase": 3}));
        }
        rep.nontrivial += 1;
    }
    rep.class_n(&format!("{}.sat_count_queries", K::NAME), caches.used * 4);
    if rep.samples.is_empty() {
        rep.sample(json!({"ctx": ctx, "suite": "256 functions x vars {3,4,73,1100,64,63,128,127} x {Saturating<u64>,Saturating<u128>,F64,Natural}, shared caches, then gc/churn/reorder with recycled node ids and the same caches", "example": {"table": "0x96", "vars": 73, "exact": RefNat::from_u128(4).shl(70).to_decimal()}}));
    }
}

#[derive(Clone, Debug)]
struct RCase {
    n: u32,
    m: u32,
    order_keys: Vec<u16>,
    fw: Vec<u64>,
    hw: u64,
    dens: u8,
    extra: u8,
}

fn rstrategy() -> impl Strategy<Value = RCase> {
    (4u32..=10, 0u32..=6, proptest::collection::vec(any::<u16>(), 16), proptest::collection::vec(any::<u64>(), 4), any::<u64>(), 0u8..4, 0u8..4).prop_map(|(n, m, order_keys, fw, hw, dens, extra)| RCase { n, m, order_keys, fw, hw, dens, extra })
}

/// functions over n + m <= 16 variables: f(x_0..x_{n-1}) AND h(x_n..x_{n+m-1}); the count is |f|*|h|
fn rcheck<K: BoolKind>(c: &RCase) -> Result<(), String> {
    let total = c.n + c.m;
    let mut idx: Vec<u32> = (0..total).collect();
    idx.sort_by_key(|&i| (c.order_keys[i as usize], i));
    let mr = mk_manager::<K>(total, &idx, 1 << 16, 1 << 10, 1);
    let vs = vars::<K>(&mr, total);
    let tf = tt_from_words(c.n, &c.fw, c.dens);
    let th = TT::from_u64(c.m.min(6), c.hw);
    // build f over vars 0..n and h over vars n..n+m by Shannon expansion on the right handles
    let f = {
        // ZBDD: tables must be over all manager variables; extend with don't-care semantics
        // by construction through Boolean operators on variable handles
        fn build<K: BoolKind>(mr: &MRef<K>, vs: &[K::F], t: &TT, off: usize, memo: &mut std::collections::HashMap<TT, K::F>) -> K::F {
            use oxidd::ManagerRef;
            if t.is_zero() {
                return mr.with_manager_shared(|m| K::F::f(m));
            }
            if t.is_one() {
                return mr.with_manager_shared(|m| K::F::t(m));
            }
            if let Some(r) = memo.get(t) {
                return r.clone();
            }
            let v = (0..t.n).rev().find(|&v| t.depends(v)).unwrap();
            let hi = build::<K>(mr, vs, &t.cof(v, true), off, memo);
            let lo = build::<K>(mr, vs, &t.cof(v, false), off, memo);
            let r = vs[off + v as usize].ite(&hi, &lo).unwrap();
            memo.insert(*t, r.clone());
            r
        }
        let ff = build::<K>(&mr, &vs, &tf, 0, &mut Default::default());
        let hh = build::<K>(&mr, &vs, &th, c.n as usize, &mut Default::default());
        ff.and(&hh).map_err(|_| "oom")?
    };
    let models = tf.popcount() * th.popcount();
    let mut caches = Caches::new(c.extra % 2 == 0);
    let varsets: Vec<u32> = if K::KIND == BKind::Zbdd { vec![total] } else { vec![total, total + 1, total + 70, 1100] };
    for &vars in &varsets {
        check_count(&f, models, total, vars, &mut caches, models == 0)?;
    }
    // same caches, another handle
    let g = f.not().map_err(|_| "oom")?;
    let models_g = (1u64 << total) - models;
    check_count(&g, models_g, total, varsets[0], &mut caches, models_g == 0)?;
    check_count(&f, models, total, varsets[0], &mut caches, models == 0)?;
    Ok(())
}

fn rand_job<K: BoolKind>(seed: u64, cases: u32, rep: &mut Report) {
    let strat = rstrategy();
    let mut samples = vec![];
    let out = crate::pt::run(
        seed,
        cases,
        &strat,
        |c| {
            if samples.len() < 1 {
                samples.push(json!({"kind": K::NAME, "vars": c.n + c.m, "f": tt_from_words(c.n, &c.fw, c.dens).hex(), "h": TT::from_u64(c.m.min(6), c.hw).hex()}));
            }
            progress(&json!({"sig": format!("C12/{}/random/crash", K::NAME), "case": format!("{c:?}")}).to_string());
        },
        rcheck::<K>,
    );
    rep.evaluations += out.cases * 24;
    rep.nontrivial += out.cases;
    rep.class_n(&format!("{}.random_up_to_16_vars", K::NAME), out.cases);
    for s in samples {
        rep.sample(s);
    }
    if let Some((c, msg)) = out.failure {
        rep.viol(format!("C12/{}/random/{}", K::NAME, crate::hrun::category(&msg)), msg, json!({"kind": K::NAME, "case": format!("{c:?}")}));
    }
    let _ = order_from_keys;
}

// ---------------------------------------------------------------------------
// stateful: one set of count caches reused across a history of counts with changing `vars`,
// collections, reorderings and handle replacement (recycled node ids)
// ---------------------------------------------------------------------------

#[derive(Clone, Debug, serde::Serialize, serde::Deserialize)]
enum SOp {
    /// count function i with varsets[j]
    Count(u8, u8),
    Gc,
    Reorder(Vec<u16>),
    /// drop function i and put the function with this table in its place
    Replace(u8, u16),
}

#[derive(Clone, Debug, serde::Serialize, serde::Deserialize)]
struct SCase {
    tables: Vec<u16>,
    cache_all: bool,
    ops: Vec<SOp>,
}

fn sstrategy() -> impl Strategy<Value = SCase> {
    let op = prop_oneof![
        10 => (0u8..6, 0u8..4).prop_map(|(i, j)| SOp::Count(i, j)),
        3 => Just(SOp::Gc),
        2 => proptest::collection::vec(any::<u16>(), 4).prop_map(SOp::Reorder),
        3 => (0u8..6, any::<u16>()).prop_map(|(i, t)| SOp::Replace(i, t)),
    ];
    (proptest::collection::vec(any::<u16>(), 6), any::<bool>(), proptest::collection::vec(op, 4..40)).prop_map(|(tables, cache_all, ops)| SCase { tables, cache_all, ops })
}

fn scheck<K: BoolKind>(c: &SCase) -> Result<u64, String> {
    const N: u32 = 4;
    let mr = mk_manager::<K>(N, &[0, 1, 2, 3], 1 << 12, 1 << 8, 1);
    let vs = vars::<K>(&mr, N);
    let build = |t: u16| from_shannon::<K>(&mr, &vs, &TT::from_u64(N, t as u64), &mut Default::default());
    let mut tables = c.tables.clone();
    let mut fns: Vec<K::F> = tables.iter().map(|&t| build(t)).collect();
    let mut caches = Caches::new(c.cache_all);
    let varsets: [u32; 4] = if K::KIND == BKind::Zbdd { [N, N, N, N] } else { [N, N + 1, N + 3, 70] };
    // pattern statistics: a count whose cache saw a collection AND another `vars` since the last
    // count with the same `vars`
    let (mut last_vars, mut events, mut interesting) = (None::<u32>, 0u32, 0u64);
    for (k, op) in c.ops.iter().enumerate() {
        match op {
            SOp::Count(i, j) => {
                let (i, vars) = (*i as usize, varsets[*j as usize]);
                check_count(&fns[i], tables[i].count_ones() as u64, N, vars, &mut caches, tables[i] == 0).map_err(|m| format!("{m} [step {k}: {op:?} on table {:04x}, caches reused across the history]", tables[i]))?;
                if events > 0 && last_vars.is_some() && last_vars != Some(vars) {
                    interesting += 1;
                }
                if last_vars != Some(vars) {
                    events = 0;
                }
                last_vars = Some(vars);
            }
            SOp::Gc => {
                K::gc(&mr);
                events += 1;
            }
            SOp::Reorder(keys) => {
                let order = order_from_keys(N, keys);
                K::set_var_order(&mr, &order, true);
                events += 1;
            }
            SOp::Replace(i, t) => {
                let i = *i as usize;
                tables[i] = *t;
                fns[i] = build(*t);
            }
        }
    }
    Ok(interesting)
}

fn stateful_job<K: BoolKind>(seed: u64, cases: u32, rep: &mut Report) {
    let strat = sstrategy();
    let mut nt = 0u64;
    let mut sample = None;
    let out = crate::pt::run2(
        seed,
        cases,
        &strat,
        |c| progress(&json!({"sig": format!("C12/{}/stateful/crash", K::NAME), "case": {"kind": K::NAME, "stateful": c}}).to_string()),
        |c, r: &Result<u64, String>| {
            if let Ok(i) = r {
                if *i > 0 {
                    nt += 1;
                    if sample.is_none() {
                        sample = Some(json!({"kind": K::NAME, "stateful": c}));
                    }
                }
            }
        },
        scheck::<K>,
    );
    rep.evaluations += out.cases * 40;
    rep.nontrivial += nt;
    rep.class_n(&format!("{}.stateful_cache_histories", K::NAME), out.cases);
    rep.class_n(&format!("{}.stateful_histories_with_gc_or_reorder_between_counts_with_different_vars", K::NAME), nt);
    if let Some(s) = sample {
        rep.sample(s);
    }
    if let Some((c, msg)) = out.failure {
        rep.viol(format!("C12/{}/stateful/{}", K::NAME, crate::hrun::category(&msg)), msg, json!({"kind": K::NAME, "stateful": c}));
    }
}

pub fn run(cfg: &Cfg) -> i32 {
    let start = Instant::now();
    if let Some(path) = &cfg.replay {
        let v: Value = serde_json::from_str(&std::fs::read_to_string(path).expect("replay file")).expect("json");
        if let Ok(c) = serde_json::from_value::<SCase>(v["case"]["stateful"].clone()) {
            let kind = v["case"]["kind"].as_str().unwrap_or("bdd").to_string();
            let out = isolated(120, |w| {
                let r = match kind.as_str() {
                    "bdd" => scheck::<BddK>(&c),
                    "bcdd" => scheck::<BcddK>(&c),
                    _ => scheck::<ZbddK>(&c),
                };
                let _ = writeln!(w, "{}", json!({"ok": r.is_ok(), "msg": r.err()}));
            });
            let verdict: Option<Value> = out.lines.iter().filter_map(|l| serde_json::from_str(l).ok()).find(|v: &Value| v.get("ok").is_some());
            return match (out.end, verdict) {
                (End::Exit(0), Some(v)) if v["ok"].as_bool() == Some(true) => {
                    println!("replay: case passes");
                    0
                }
                (End::Timeout, _) => {
                    println!("INCONCLUSIVE: watchdog");
                    2
                }
                (e, v) => {
                    println!("VIOLATION property=C12 replay={path}\n  what: {}", v.and_then(|v| v["msg"].as_str().map(|s| s.to_string())).unwrap_or(format!("crash: {e:?}")));
                    1
                }
            };
        }
        // other suites: the campaign is replayed with the recorded seed (see main.rs)
    }
    let perms = permutations(3);
    let mut jobs: Vec<Box<dyn FnMut(&mut dyn Write) + '_>> = vec![];
    let mut names = vec![];
    names.push("natural/boundary".into());
    jobs.push(Box::new(|w: &mut dyn Write| {
        let mut rep = Report::default();
        natural_boundary(&mut rep);
        rep.emit(w);
    }));
    for sh in 0..cfg.t(4, 8) {
        let seed = mix(cfg.seed ^ (0xc12_000 + sh as u64));
        let cases = cfg.t(4000, 60000);
        names.push(format!("natural/random/{sh}"));
        jobs.push(Box::new(move |w: &mut dyn Write| {
            let mut rep = Report::default();
            natural_random(seed, cases, &mut rep);
            rep.emit(w);
        }));
    }
    macro_rules! add_kind {
        ($K:ty, $salt:expr) => {
            for (oi, order) in perms.iter().enumerate() {
                let order = order.clone();
                names.push(format!("exh3/{}/{:?}", <$K>::NAME, order));
                jobs.push(Box::new(move |w: &mut dyn Write| {
                    let mut rep = Report::default();
                    exh3::<$K>(&order, oi % 2 == 0, &mut rep);
                    rep.emit(w);
                }));
            }
            for sh in 0..cfg.t(1, 3) {
                let seed = mix(cfg.seed ^ (0xc12_a00 + $salt * 100 + sh as u64));
                let cases = cfg.t(1500, 20000);
                names.push(format!("stateful/{}/{}", <$K>::NAME, sh));
                jobs.push(Box::new(move |w: &mut dyn Write| {
                    let mut rep = Report::default();
                    chunked(seed, cases, 500, &mut rep, |s, n, r| stateful_job::<$K>(s, n, r));
                    rep.emit(w);
                }));
            }
            for sh in 0..cfg.t(1, 3) {
                let seed = mix(cfg.seed ^ (0xc12_800 + $salt * 100 + sh as u64));
                let cases = cfg.t(500, 6000);
                names.push(format!("rand/{}/{}", <$K>::NAME, sh));
                jobs.push(Box::new(move |w: &mut dyn Write| {
                    let mut rep = Report::default();
                    chunked(seed, cases, 500, &mut rep, |s, n, r| rand_job::<$K>(s, n, r));
                    rep.emit(w);
                }));
            }
        };
    }
    add_kind!(BddK, 1);
    add_kind!(BcddK, 2);
    add_kind!(ZbddK, 3);
    crate::fzrun::add_jobs(cfg, "C12", &mut jobs, &mut names);
    let outs = run_jobs(&mut jobs, cfg.par, cfg.t(600, 7200));
    drop(jobs);
    let mut total = Report::default();
    merge_jobs(&mut total, outs, &names);
    conclude(
        cfg,
        &total,
        Meta {
            level: "exploration",
            rule: "sat_count: all 256 three-variable functions x 6 orders x {BDD,BCDD,ZBDD} with vars in {n, n+1, 73, 1100, 63, 64, 127, 128} (ZBDD: vars = num_vars, its documented domain) for Saturating<u64>, Saturating<u128>, F64 and Natural, one SatCountCache per type shared across all handles and alternating vars, cache_all on/off; then half of the functions are dropped, gc + churn + reorder recycle node ids and everything is counted again with the same caches, then once more across a plain gc. Random functions over up to 16 variables built as f(x0..x9) AND h(x10..x15) with count |f|*|h|. Oracle: popcount * 2^(vars-n) as an independent big natural (exact for integers when vars < BITS else the saturation marker, constant false may report 0; F64 within 2^-45 relative / inf beyond 2^1024; Natural exact via mantissa/exponent decoding and decimal text). Natural alone: 49 boundary values (0, 1, 2^k-1, 2^k, 2^k+1 around 32/64/128/192/256 bits, multi-digit patterns) - all pairs for add/eq/cmp/hash, shifts by {0,1,63,64,65,200}, conversions from/to u32/u64/u128/f64 (correct rounding), Display/Binary/Octal/LowerHex/UpperHex with width/fill/#/0/+ flags (expected text via Formatter::pad_integral on independently computed digits); random operands up to 512 bits and op sequences; NaN exactly for inexact right shift and exponent overflow. Non-trivial = count served from a cache already holding entries of other handles / an earlier gc epoch / another vars; Natural operands of different digit counts or a carry into a new digit. COVERAGE-GUIDED FUZZING: the libFuzzer targets of this property (harness/fuzz, entry points and decoders in fz.rs, the same oracle as above, built with AddressSanitizer, debug assertions and overflow checks) - quick tier: every committed seed and regression input is replayed through the in-process entry point; thorough tier: 3 libFuzzer campaigns per target with -runs=N -seed=f(VERIF_SEED) on fresh corpora initialised from the seeds (evaluations = executions, non-trivial = inputs kept for new coverage).",
            assumptions: vec!["ZBDD sat_count is only defined for vars = number of manager variables".into(), "dashu (used by Natural's Display) is not used as oracle".into()],
            extra: json!({}),
        },
        start,
    )
}
