//! C15 extras: MTBDD round trips (I64 and F64 terminals), TDD export (the importer does not
//! accept ternary nodes - a compile-time assertion -, so only the export side is checked). The mode the exporter
//! picks is not prescribed; what counts is that its file is accepted and round-trips.
use std::collections::HashMap;
use std::io::Write;

use oxidd::{Function, Manager, ManagerRef};
use proptest::prelude::*;
use serde::{Deserialize, Serialize};
use serde_json::json;

use crate::c02::order_from_keys;
use crate::engine::*;
use crate::vhist::{vbuild, vmk_manager};
use crate::vkinds::*;
use crate::vmodel::*;

#[derive(Clone, Debug, Serialize, Deserialize)]
pub struct VCase {
    pub n: u32,
    pub order_keys: Vec<u16>,
    /// per root: palette selectors for the 2^n (3^n) table entries
    pub tables: Vec<Vec<u8>>,
    pub v3: bool,
    pub named: bool,
}

fn vcase_strategy() -> impl Strategy<Value = VCase> {
    (2u32..=4, proptest::collection::vec(any::<u16>(), 8), proptest::collection::vec(proptest::collection::vec(any::<u8>(), 81), 1..4), any::<bool>(), any::<bool>()).prop_map(|(n, order_keys, tables, v3, named)| VCase { n, order_keys, tables, v3, named })
}

#[derive(Default, Serialize, Deserialize)]
struct VStat {
    nontrivial: bool,
    checks: u64,
}

/// build the functions, export them, load the header of the written file
macro_rules! export_part {
    ($K:ty, $c:expr, $st:expr) => {{
        type K = $K;
        let c: &VCase = $c;
        let order = order_from_keys(c.n, &c.order_keys);
        let mr = vmk_manager::<K>(c.n, &order, 1 << 8, 1);
        let pal = <K as VKind>::palette();
        let tables: Vec<VT<<K as VKind>::V>> = c.tables.iter().map(|sel| VT::from_fn(c.n, <K as VKind>::BASE, |i| pal[sel[i % sel.len()] as usize % pal.len().min(6)].clone())).collect();
        let mut memo = HashMap::new();
        let fns: Vec<<K as VKind>::F> = tables.iter().map(|t| vbuild::<K>(&mr, t, &mut memo)).collect::<Result<_, _>>()?;
        drop(memo);
        if c.named {
            mr.with_manager_exclusive(|m| {
                for v in 0..c.n {
                    let _ = m.set_var_name(v, format!("x{v}"));
                }
            });
        }
        // export (binary mode is not supported for these kinds: the exporter falls back to ASCII)
        use oxidd_dump::dddmp::{DDDMPVersion, ExportSettings};
        let mut buf: Vec<u8> = vec![];
        let es = ExportSettings::default().version(if c.v3 { DDDMPVersion::V3_0 } else { DDDMPVersion::V2_0 }).diagram_name("vdd");
        let r = std::panic::catch_unwind(std::panic::AssertUnwindSafe(|| mr.with_manager_shared(|m| es.export(&mut buf, m, fns.iter())))).map_err(|e| format!("export-panic: {}", panic_msg(&e)))?;
        r.map_err(|e| format!("export-error: exporter failed on handles of its own manager: {e}"))?;
        $st.checks += 1;
        let text = String::from_utf8_lossy(&buf).to_string();
        let mut cur = std::io::Cursor::new(&buf[..]);
        let header = std::panic::catch_unwind(std::panic::AssertUnwindSafe(|| oxidd_dump::dddmp::DumpHeader::load(&mut cur))).map_err(|e| format!("header-panic: {}", panic_msg(&e)))?.map_err(|e| format!("own-export-rejected: header of the exporter's own file is rejected: {e}"))?;
        $st.checks += 1;
        if header.num_roots() != fns.len() || header.num_vars() != c.n {
            return Err(format!("header-metadata: {} roots / {} variables in the header, exported {} / {}", header.num_roots(), header.num_vars(), fns.len(), c.n));
        }
        let nodes_line = text.lines().find(|l| l.starts_with(".nnodes")).unwrap_or("").to_string();
        if header.num_nodes().to_string() != nodes_line.trim_start_matches(".nnodes").trim() {
            return Err(format!("header-metadata: num_nodes() = {} but the file says '{nodes_line}'", header.num_nodes()));
        }
        (mr, order, tables, fns, buf, header.support_var_order().to_vec())
    }};
}

macro_rules! export_import {
    ($fname:ident, $K:ty) => {
        fn $fname(c: &VCase) -> Result<VStat, String> {
            type K = $K;
            let mut st = VStat::default();
            let (mr, order, tables, fns, buf, sv) = export_part!($K, c, st);
            // same manager: the imported handles are the exported ones
            let mut cur = std::io::Cursor::new(&buf[..]);
            let header = oxidd_dump::dddmp::DumpHeader::load(&mut cur).map_err(|e| format!("own-export-rejected: {e}"))?;
            let same = std::panic::catch_unwind(std::panic::AssertUnwindSafe(|| mr.with_manager_shared(|m| oxidd_dump::dddmp::import::<<K as VKind>::F>(&mut cur, &header, m, sv.iter().copied(), |_, e| Ok(e))))).map_err(|e| format!("import-panic: {}", panic_msg(&e)))?.map_err(|e| format!("own-export-rejected: importer rejects the exporter's file: {e}"))?;
            st.checks += 1;
            if same.len() != fns.len() || same.iter().zip(&fns).any(|(a, b)| a != b) {
                return Err("roundtrip-same-manager: the imported handles differ from the exported ones".into());
            }
            drop(same);
            // fresh manager whose order is set from the file's support order
            let fresh = vmk_manager::<K>(c.n, &(0..c.n).collect::<Vec<u32>>(), 1 << 8, 1);
            if sv.len() >= 2 {
                <K as VKind>::set_var_order(&fresh, &sv, true);
            }
            let mut cur2 = std::io::Cursor::new(&buf[..]);
            let header2 = oxidd_dump::dddmp::DumpHeader::load(&mut cur2).map_err(|e| format!("own-export-rejected: {e}"))?;
            let imp = std::panic::catch_unwind(std::panic::AssertUnwindSafe(|| fresh.with_manager_shared(|m| oxidd_dump::dddmp::import::<<K as VKind>::F>(&mut cur2, &header2, m, sv.iter().copied(), |_, e| Ok(e))))).map_err(|e| format!("import-panic: {}", panic_msg(&e)))?.map_err(|e| format!("own-export-rejected: import into a fresh manager ordered by support_var_order fails: {e}"))?;
            for (f, t) in imp.iter().zip(&tables) {
                st.checks += 1;
                let got = <K as VKind>::table(f, c.n);
                if got != *t {
                    return Err(format!("roundtrip-fresh-manager: imported table {:?}, exported {:?}", got.vals, t.vals));
                }
            }
            let handles: Vec<&<K as VKind>::F> = imp.iter().collect();
            <K as VKind>::audit(&fresh, &handles, true).map_err(|e| format!("roundtrip-audit: {e}"))?;
            st.nontrivial = tables.len() >= 2 && tables.iter().any(|t| t.is_const().is_none()) && order.iter().enumerate().any(|(l, v)| l as u32 != *v);
            Ok(st)
        }
    };
}

export_import!(case_i64, MtI64K);
export_import!(case_f64, MtF64K);

/// TDD: export only (the importer rejects ternary nodes at compile time); the file must be
/// written, be in ASCII mode and carry a loadable header with the right metadata
fn case_tdd(c: &VCase) -> Result<VStat, String> {
    let mut st = VStat::default();
    let (_mr, _order, tables, _fns, _buf, _sv) = export_part!(TddK, c, st);
    st.nontrivial = tables.iter().any(|t| t.is_const().is_none());
    Ok(st)
}

fn case_isolated(kind: &str, c: &VCase) -> Result<VStat, String> {
    let out = isolated(120, |w| {
        progress(&json!({"sig": format!("C15/{kind}/roundtrip/crash"), "case": {"kind": kind, "vcase": c}}).to_string());
        let r = match kind {
            "mtbdd-i64" => case_i64(c),
            "mtbdd-f64" => case_f64(c),
            _ => case_tdd(c),
        };
        let _ = writeln!(w, "{}", json!({"ok": r.as_ref().ok(), "err": r.as_ref().err()}));
    });
    match out.end {
        End::Exit(0) => {
            let v: serde_json::Value = out.lines.iter().filter_map(|l| serde_json::from_str(l).ok()).find(|v: &serde_json::Value| v.get("ok").is_some() || v.get("err").is_some()).unwrap_or(json!({"err": "crash: no verdict"}));
            match v["err"].as_str() {
                Some(e) => Err(e.to_string()),
                None => serde_json::from_value(v["ok"].clone()).map_err(|e| e.to_string()),
            }
        }
        End::Timeout => Err("timeout: watchdog".into()),
        e => Err(format!("crash: child ended {e:?}")),
    }
}

fn campaign(kind: &'static str, seed: u64, cases: u32, rep: &mut Report) {
    let mut nt = 0u64;
    let mut evals = 0u64;
    let mut sample = None;
    let out = crate::pt::run2(
        seed,
        cases,
        &vcase_strategy(),
        |_| {},
        |c, r: &Result<VStat, String>| {
            if let Ok(s) = r {
                evals += s.checks;
                if s.nontrivial {
                    nt += 1;
                    if sample.is_none() {
                        sample = Some(json!({"kind": kind, "vcase": c}));
                    }
                }
            }
        },
        |c| match case_isolated(kind, c) {
            Err(m) if m.starts_with("timeout") => Ok(VStat::default()),
            r => r,
        },
    );
    rep.evaluations += evals;
    rep.nontrivial += nt;
    rep.class_n(&format!("{kind}.roundtrip_cases"), out.cases);
    if let Some(s) = sample {
        rep.sample(s);
    }
    if let Some((c, msg)) = out.failure {
        rep.viol(format!("C15/{kind}/{}", crate::hrun::category(&msg)), msg, json!({"kind": kind, "vcase": c}));
    }
}

pub fn add_jobs<'a>(cfg: &'a Cfg, jobs: &mut Vec<Box<dyn FnMut(&mut dyn Write) + 'a>>, names: &mut Vec<String>) {
    for (i, kind) in ["mtbdd-i64", "mtbdd-f64", "tdd"].into_iter().enumerate() {
        let seed = mix(cfg.seed ^ (0xc15_700 + i as u64));
        let cases = cfg.t(600, 8000);
        names.push(format!("vroundtrip/{kind}"));
        jobs.push(Box::new(move |w: &mut dyn Write| {
            let mut rep = Report::default();
            campaign(kind, seed, cases, &mut rep);
            rep.emit(w);
        }));
    }
}

/// `--replay` of a case recorded by this module
pub fn replay(path: &str, case: &serde_json::Value) -> Option<i32> {
    let c: VCase = serde_json::from_value(case["vcase"].clone()).ok()?;
    let kind = case["kind"].as_str()?.to_string();
    Some(match case_isolated(&kind, &c) {
        Ok(_) => {
            println!("replay: case passes");
            0
        }
        Err(m) if m.starts_with("timeout") => {
            println!("INCONCLUSIVE: {m}");
            2
        }
        Err(m) => {
            println!("VIOLATION property=C15 replay={path}\n  what: {m}");
            1
        }
    })
}
