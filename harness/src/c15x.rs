//! C15 extras: MTBDD round trips, TDD export-only.
use std::io::Write;

use crate::engine::Cfg;

pub fn add_jobs<'a>(_cfg: &'a Cfg, _jobs: &mut Vec<Box<dyn FnMut(&mut dyn Write) + 'a>>, _names: &mut Vec<String>) {}
