//! C07 — concurrent and parallel execution is equivalent to sequential execution.
//! Layer 1: parallel recursion (worker pool) vs a 1-thread manager on 12..20 variables.
//! Layer 2: several application threads on one manager vs the sequential run of their scripts.
//! Layer 3 (instrumented yield points) is in c07s.rs.

use std::io::Write;
use std::sync::Arc;
use std::time::Instant;

use oxidd::{BooleanFunction, ManagerRef};
use proptest::prelude::*;
use serde::{Deserialize, Serialize};
use serde_json::{Value, json};

use crate::build::*;
use crate::c02::{apply_op, order_from_keys};
use crate::engine::*;
use crate::hist::bool_operator;
use crate::kinds::*;
use crate::model::*;

#[derive(Clone, Debug, Serialize, Deserialize, PartialEq)]
pub enum Base {
    Var(u16),
    /// carry-out of an adder over the first k pairs of variables (x_i, x_{i+h})
    Carry(u8),
    /// x_0..x_{h-1} < x_h..x_{2h-1} as numbers
    Less,
    /// random DNF: seed, number of terms, literals per term
    Dnf(u32, u8, u8),
    /// parity of a subset
    Parity(u32),
}

#[derive(Clone, Debug, Serialize, Deserialize, PartialEq)]
pub enum COp {
    Bin(BinOp, u16, u16),
    Ite(u16, u16, u16),
    Not(u16),
    Quant(u8, u16, u32),
    ApplyQuant(u8, BinOp, u16, u16, u32),
    CloneDrop(u16),
    Gc,
    /// compute a result and drop it at once (garbage for the collector)
    Churn(BinOp, u16, u16),
}

#[derive(Clone, Debug, Serialize, Deserialize)]
pub struct Scen {
    pub n: u32,
    pub order_keys: Vec<u16>,
    pub bases: Vec<Base>,
    pub scripts: Vec<Vec<COp>>,
    pub workers: u32,
    pub split: Option<u32>,
    pub cache: usize,
    /// 0: practically unbounded store. p > 0: the concurrent run uses a store of
    /// max(128, live * (105 + p) / 100) nodes, where live is the number of nodes the bases and
    /// all results need, so that the background collector runs alongside; operations may then
    /// fail with OutOfMemory, which makes the dependent results unavailable (not compared).
    #[serde(default)]
    pub tight: u8,
}

fn build_base<K: BoolKind>(mr: &MRef<K>, vs: &[K::F], n: u32, b: &Base) -> Option<K::F> {
    let h = (n / 2) as usize;
    let (ff, tt) = mr.with_manager_shared(|m| (K::F::f(m), K::F::t(m)));
    Some(match b {
        Base::Var(v) => return Some(vs[(*v as usize * n as usize) >> 16].clone()),
        Base::Carry(k) => {
            let k = (*k as usize % h).max(1);
            let mut c = ff.clone();
            for i in 0..k {
                let (a, b) = (&vs[i], &vs[i + h]);
                // carry' = a&b | c&(a^b)
                let ab = a.and(b).ok()?;
                let x = a.xor(b).ok()?;
                c = ab.or(&c.and(&x).ok()?).ok()?;
            }
            c
        }
        Base::Less => {
            // lexicographic comparison from the most significant pair down
            let mut lt = ff.clone();
            let mut eq = tt.clone();
            for i in (0..h).rev() {
                let (a, b) = (&vs[i], &vs[i + h]);
                let this_lt = a.not().ok()?.and(b).ok()?;
                lt = lt.or(&eq.and(&this_lt).ok()?).ok()?;
                eq = eq.and(&a.equiv(b).ok()?).ok()?;
            }
            lt
        }
        Base::Dnf(seed, terms, width) => {
            let mut s = *seed as u64 + 17;
            let mut acc = ff.clone();
            for _ in 0..(*terms % 12 + 2) {
                let mut cube = tt.clone();
                for _ in 0..(*width % 5 + 2) {
                    s = mix(s);
                    let v = (s % n as u64) as usize;
                    let lit = if (s >> 20) & 1 == 1 { vs[v].clone() } else { vs[v].not().ok()? };
                    cube = cube.and(&lit).ok()?;
                }
                acc = acc.or(&cube).ok()?;
            }
            acc
        }
        Base::Parity(mask) => {
            let mut acc = ff.clone();
            for v in 0..n {
                if (mask >> (v % 32)) & 1 == 1 {
                    acc = acc.xor(&vs[v as usize]).ok()?;
                }
            }
            acc
        }
    })
}

#[inline]
fn sel(i: u16, len: usize) -> usize {
    ((i as usize) * len) >> 16
}

fn varset<K: BoolKind>(mr: &MRef<K>, vs: &[K::F], n: u32, mask: u32) -> K::F {
    let mut acc = mr.with_manager_shared(|m| K::F::t(m));
    let mut cnt = 0;
    for v in 0..n {
        if (mask >> v) & 1 == 1 && cnt < 3 {
            acc = acc.and(&vs[v as usize]).unwrap();
            cnt += 1;
        }
    }
    acc
}

/// run one script; operands come from bases ++ own results; returns the results in order.
/// `None` = the operation (or one of its operands) failed with OutOfMemory.
fn run_script<K: BoolKind>(mr: &MRef<K>, vs: &[K::F], n: u32, bases: &[K::F], script: &[COp]) -> Vec<Option<K::F>> {
    let mut own: Vec<Option<K::F>> = vec![];
    for op in script {
        let pool_len = bases.len() + own.len();
        let get = |i: u16, own: &Vec<Option<K::F>>| -> Option<K::F> {
            let k = sel(i, pool_len);
            if k < bases.len() { Some(bases[k].clone()) } else { own[k - bases.len()].clone() }
        };
        match op {
            COp::Bin(o, a, b) => {
                let r = match (get(*a, &own), get(*b, &own)) {
                    (Some(a), Some(b)) => try_apply_op(*o, &a, &b),
                    _ => None,
                };
                own.push(r);
            }
            COp::Churn(o, a, b) => {
                if let (Some(a), Some(b)) = (get(*a, &own), get(*b, &own)) {
                    drop(try_apply_op(*o, &a, &b));
                }
            }
            COp::Ite(a, b, c) => {
                let r = match (get(*a, &own), get(*b, &own), get(*c, &own)) {
                    (Some(a), Some(b), Some(c)) => a.ite(&b, &c).ok(),
                    _ => None,
                };
                own.push(r);
            }
            COp::Not(a) => {
                let r = get(*a, &own).and_then(|a| a.not().ok());
                own.push(r);
            }
            COp::Quant(q, a, mask) => {
                if K::KIND == BKind::Zbdd {
                    continue;
                }
                let r = match (try_varset::<K>(mr, vs, n, *mask), get(*a, &own)) {
                    (Some(set), Some(a)) => K::quant(*q % 3, &a, &set).and_then(|r| r.ok()),
                    _ => None,
                };
                own.push(r);
            }
            COp::ApplyQuant(q, o, a, b, mask) => {
                if K::KIND == BKind::Zbdd {
                    continue;
                }
                let r = match (try_varset::<K>(mr, vs, n, *mask), get(*a, &own), get(*b, &own)) {
                    (Some(set), Some(a), Some(b)) => K::apply_quant(*q % 3, bool_operator(*o), &a, &b, &set).and_then(|r| r.ok()),
                    _ => None,
                };
                own.push(r);
            }
            COp::CloneDrop(a) => {
                if let Some(x) = get(*a, &own) {
                    let y = x.clone();
                    drop(x);
                    drop(y);
                }
            }
            COp::Gc => {
                K::gc(mr);
            }
        }
    }
    own
}

fn try_apply_op<F: BooleanFunction>(o: BinOp, a: &F, b: &F) -> Option<F> {
    match o {
        BinOp::And => a.and(b),
        BinOp::Or => a.or(b),
        BinOp::Xor => a.xor(b),
        BinOp::Equiv => a.equiv(b),
        BinOp::Nand => a.nand(b),
        BinOp::Nor => a.nor(b),
        BinOp::Imp => a.imp(b),
        BinOp::ImpStrict => a.imp_strict(b),
    }
    .ok()
}

fn try_varset<K: BoolKind>(mr: &MRef<K>, vs: &[K::F], n: u32, mask: u32) -> Option<K::F> {
    let mut acc = mr.with_manager_shared(|m| K::F::t(m));
    let mut cnt = 0;
    for v in 0..n {
        if (mask >> v) & 1 == 1 && cnt < 3 {
            acc = acc.and(&vs[v as usize]).ok()?;
            cnt += 1;
        }
    }
    Some(acc)
}

#[derive(Default, Serialize, Deserialize, Debug)]
pub struct CStat {
    pub results: u64,
    pub max_nodes: usize,
    pub shared_results: u64,
    pub threads: usize,
    pub gcs: u64,
    #[serde(default)]
    pub oom_results: u64,
    /// gc_count delta: explicit and background collections that actually ran
    #[serde(default)]
    pub collections: u64,
    #[serde(default)]
    pub tight: bool,
    /// layer 3: schedule perturbations executed during the concurrent phase
    #[serde(default)]
    pub perturbations: u64,
}

fn setup<K: BoolKind>(s: &Scen, workers: u32, cap: usize) -> Result<(MRef<K>, Vec<K::F>, Vec<K::F>), String> {
    let order = order_from_keys(s.n, &s.order_keys);
    let mr = mk_manager::<K>(s.n, &order, cap, s.cache, workers);
    let vs = vars::<K>(&mr, s.n);
    let mut bases: Vec<K::F> = vec![];
    for b in &s.bases {
        let f = match build_base::<K>(&mr, &vs, s.n, b) {
            Some(f) => f,
            None => {
                // tight store: collect the temporaries of the previous constructions and retry
                K::gc(&mr);
                build_base::<K>(&mr, &vs, s.n, b).ok_or_else(|| "harness: base functions do not fit into the tight store".to_string())?
            }
        };
        bases.push(f);
        if cap < (1 << 21) {
            K::gc(&mr);
        }
    }
    Ok((mr, vs, bases))
}

/// the whole scenario, executed inside a forked child
pub fn run_scen<K: BoolKind>(s: &Scen) -> Result<CStat, String> {
    // sequential reference: one application thread, one worker
    let (mr0, vs0, bases0) = setup::<K>(s, 1, 1 << 21)?;
    let seq: Vec<Vec<Option<K::F>>> = s.scripts.iter().map(|sc| run_script::<K>(&mr0, &vs0, s.n, &bases0, sc)).collect();
    if seq.iter().flatten().any(|r| r.is_none()) {
        return Err("harness: sequential reference ran out of memory".into());
    }
    let expected: Vec<Vec<u64>> = seq.iter().map(|rs| rs.iter().map(|f| K::shash(f.as_ref().unwrap())).collect()).collect();
    let base_hashes: Vec<u64> = bases0.iter().map(|f| K::shash(f)).collect();
    let cap = if s.tight == 0 {
        1 << 21
    } else {
        K::gc(&mr0);
        let live = K::num_inner_nodes(&mr0);
        (live * (105 + s.tight as usize) / 100).max(128)
    };
    drop(seq);
    drop((vs0, bases0));
    drop(mr0);

    let (mr, vs, bases) = setup::<K>(s, s.workers, cap)?;
    K::set_split_depth(&mr, s.split);
    let gc0 = K::gc_count(&mr);
    for (i, b) in bases.iter().enumerate() {
        if K::shash(b) != base_hashes[i] {
            return Err(format!("parallel-differs: base function {i} ({:?}) built on a manager with {} workers differs structurally from the 1-worker manager", s.bases[i], s.workers));
        }
    }
    let mut st = CStat::default();
    st.threads = s.scripts.len();
    let bases = Arc::new(bases);
    let vs = Arc::new(vs);
    crate::c07s::activate(true);
    let results: Vec<Vec<Option<K::F>>> = if s.scripts.len() == 1 {
        vec![run_script::<K>(&mr, &vs, s.n, &bases, &s.scripts[0])]
    } else {
        let handles: Vec<_> = s
            .scripts
            .iter()
            .cloned()
            .map(|sc| {
                let (vs, bases, n) = (vs.clone(), bases.clone(), s.n);
                std::thread::Builder::new()
                    .stack_size(64 << 20)
                    .spawn(move || {
                        use oxidd::Function;
                        let mr = vs[0].manager_ref();
                        run_script::<K>(&mr, &vs, n, &bases, &sc)
                    })
                    .unwrap()
            })
            .collect();
        let mut out = vec![];
        for h in handles {
            out.push(h.join().map_err(|e| format!("thread-panic: an application thread panicked: {}", panic_msg(&e)))?);
        }
        out
    };
    crate::c07s::activate(false);
    // every result equals the sequential one
    let mut by_hash: std::collections::HashMap<u64, (usize, usize)> = Default::default();
    for (t, rs) in results.iter().enumerate() {
        if rs.len() != expected[t].len() {
            return Err(format!("result-count: thread {t} produced {} results, sequential run {}", rs.len(), expected[t].len()));
        }
        for (i, f) in rs.iter().enumerate() {
            let Some(f) = f else {
                if s.tight == 0 {
                    return Err(format!("spurious-oom: result {i} of thread {t} ({:?}) is OutOfMemory in a store of 2^21 nodes", s.scripts[t].get(i)));
                }
                st.oom_results += 1;
                continue;
            };
            st.results += 1;
            let h = K::shash(f);
            if h != expected[t][i] {
                return Err(format!("concurrent-differs: result {i} of thread {t} ({:?}) is not the diagram a sequential execution returns", s.scripts[t].get(i)));
            }
            use oxidd::Function;
            st.max_nodes = st.max_nodes.max(f.node_count());
            // equal functions obtained by different threads are the same handle
            if let Some(&(t2, i2)) = by_hash.get(&h) {
                if results[t2][i2].as_ref() != Some(f) {
                    return Err(format!("noncanonical: thread {t2} result {i2} and thread {t} result {i} denote the same function but are different handles"));
                }
                if t2 != t {
                    st.shared_results += 1;
                }
            } else {
                by_hash.insert(h, (t, i));
            }
        }
    }
    // quiescent: well-formed diagram with exact reference counts
    let mut handles: Vec<&K::F> = bases.iter().chain(vs.iter()).collect();
    for rs in &results {
        handles.extend(rs.iter().flatten());
    }
    st.collections = K::gc_count(&mr) - gc0;
    st.tight = s.tight > 0;
    K::audit(&mr, &handles, true).map_err(|e| format!("audit-after-concurrent-run: {e}"))?;
    st.gcs = s.scripts.iter().flatten().filter(|o| matches!(o, COp::Gc)).count() as u64;
    Ok(st)
}

fn binop() -> impl Strategy<Value = BinOp> {
    (0usize..8).prop_map(|i| BINOPS[i])
}

fn cop_strategy(hot: bool) -> impl Strategy<Value = COp> {
    let s = any::<u16>;
    prop_oneof![
        30 => (binop(), s(), s()).prop_map(|(o, a, b)| COp::Bin(o, a, b)),
        8 => (s(), s(), s()).prop_map(|(a, b, c)| COp::Ite(a, b, c)),
        4 => s().prop_map(COp::Not),
        5 => (0u8..3, s(), any::<u32>()).prop_map(|(q, a, m)| COp::Quant(q, a, m)),
        5 => (0u8..3, binop(), s(), s(), any::<u32>()).prop_map(|(q, o, a, b, m)| COp::ApplyQuant(q, o, a, b, m)),
        6 => s().prop_map(COp::CloneDrop),
        if hot { 4 } else { 1 } => Just(COp::Gc),
        if hot { 6 } else { 1 } => (binop(), s(), s()).prop_map(|(o, a, b)| COp::Churn(o, a, b)),
    ]
}

fn base_strategy() -> impl Strategy<Value = Base> {
    prop_oneof![
        4 => any::<u16>().prop_map(Base::Var),
        2 => any::<u8>().prop_map(Base::Carry),
        1 => Just(Base::Less),
        4 => (any::<u32>(), any::<u8>(), any::<u8>()).prop_map(|(a, b, c)| Base::Dnf(a, b, c)),
        2 => any::<u32>().prop_map(Base::Parity),
    ]
}

/// layer 1: one application thread, big operands, many workers
fn par_strategy() -> impl Strategy<Value = Scen> {
    (12u32..=20, proptest::collection::vec(any::<u16>(), 20), proptest::collection::vec(base_strategy(), 3..7), proptest::collection::vec(cop_strategy(false), 4..14), proptest::sample::select(vec![2u32, 4, 8, 16]), proptest::sample::select(vec![Some(1u32), Some(3), Some(20), None]), proptest::sample::select(vec![1usize << 4, 1 << 12, 1 << 16]))
        .prop_map(|(n, order_keys, bases, script, workers, split, cache)| Scen { n, order_keys, bases, scripts: vec![script], workers, split, cache, tight: 0 })
}

/// layer 2: 2..16 application threads, small hot diagrams
pub fn conc_strategy() -> impl Strategy<Value = Scen> {
    (4u32..=12, proptest::collection::vec(any::<u16>(), 20), proptest::collection::vec(base_strategy(), 2..6), proptest::collection::vec(proptest::collection::vec(cop_strategy(true), 3..25), 2..=16), proptest::sample::select(vec![1u32, 2, 4]), proptest::sample::select(vec![Some(0u32), Some(2), None]), proptest::sample::select(vec![1usize, 16, 1 << 10]))
        .prop_map(|(n, order_keys, bases, scripts, workers, split, cache)| Scen { n, order_keys, bases, scripts, workers, split, cache, tight: 0 })
}

/// layer 2b: like layer 2 on 8..12 variables with longer scripts in a store that is only
/// 6..60 % larger than what the live functions need: the background collector runs alongside
pub fn tight_strategy() -> impl Strategy<Value = Scen> {
    (8u32..=12, proptest::collection::vec(any::<u16>(), 20), proptest::collection::vec(base_strategy(), 3..6), proptest::collection::vec(proptest::collection::vec(cop_strategy(true), 20..60), 2..=6), proptest::sample::select(vec![1u32, 2, 4]), proptest::sample::select(vec![Some(0u32), Some(2), None]), proptest::sample::select(vec![16usize, 1 << 10]), 1u8..=55)
        .prop_map(|(n, order_keys, bases, mut scripts, workers, split, cache, tight)| {
            if tight % 4 != 0 {
                // no explicit gc(): every collection that runs is a background one
                scripts.iter_mut().for_each(|s| s.retain(|o| !matches!(o, COp::Gc)));
            }
            Scen { n, order_keys, bases, scripts, workers, split, cache, tight }
        })
}

fn scen_isolated<K: BoolKind>(s: &Scen) -> Result<CStat, String> {
    scen_isolated_with::<K>(s, || {}, || 0)
}

/// `before` runs in the child before the scenario (layer 3 installs its yield hook there),
/// `perturbations` reads the number of schedule perturbations afterwards
pub fn scen_isolated_with<K: BoolKind>(s: &Scen, before: impl Fn(), perturbations: impl Fn() -> u64) -> Result<CStat, String> {
    let out = isolated(300, |w| {
        progress(&json!({"sig": format!("C07/{}/crash", K::NAME), "kind": K::NAME, "scen": s}).to_string());
        before();
        let r = run_scen::<K>(s).map(|mut st| {
            st.perturbations = perturbations();
            st
        });
        let _ = writeln!(w, "{}", json!({"ok": r.as_ref().ok(), "err": r.as_ref().err()}));
    });
    match out.end {
        End::Exit(0) => {
            let v: Value = out.lines.iter().filter_map(|l| serde_json::from_str(l).ok()).find(|v: &Value| v.get("ok").is_some() || v.get("err").is_some()).unwrap_or(json!({"err": "crash: no verdict"}));
            match v["err"].as_str() {
                Some(e) => Err(e.to_string()),
                None => serde_json::from_value(v["ok"].clone()).map_err(|e| e.to_string()),
            }
        }
        End::Timeout => Err("timeout: scenario did not finish within the watchdog (possible deadlock; reported as inconclusive)".into()),
        e => Err(format!("crash: process ended {e:?}: {}", out.lines.join(" | "))),
    }
}

fn campaign<K: BoolKind>(seed: u64, cases: u32, layer: u8, rep: &mut Report) {
    let lname = match layer {
        1 => "1",
        2 => "2",
        _ => "2b",
    };
    let mut nt = 0u64;
    let mut evals = 0u64;
    let mut samples = vec![];
    let mut timeouts: Vec<String> = vec![];
    let mut agg: std::collections::BTreeMap<String, u64> = Default::default();
    let test = |s: &Scen| match scen_isolated::<K>(s) {
        Err(m) if m.starts_with("harness") => Ok(CStat { threads: usize::MAX - 1, ..Default::default() }),
        Err(m) if m.starts_with("timeout") => Ok(CStat { threads: usize::MAX, ..Default::default() }),
        r => r,
    };
    let mut after = |s: &Scen, r: &Result<CStat, String>| {
        if let Ok(st) = r {
            if st.threads == usize::MAX - 1 {
                *agg.entry(format!("{}.layer{lname}.skipped_store_too_tight_for_setup", K::NAME)).or_insert(0) += 1;
                return;
            }
            if st.threads == usize::MAX {
                timeouts.push(format!("{} layer {layer}: watchdog expired for a scenario with {} threads", K::NAME, s.scripts.len()));
                return;
            }
            evals += st.results.max(1);
            let nontrivial = match layer {
                1 => st.max_nodes >= 200,
                2 => st.threads >= 2 && st.results >= 6,
                _ => st.threads >= 2 && st.results >= 6 && st.collections >= 2,
            };
            if layer == 3 {
                *agg.entry(format!("{}.layer{lname}.collections_incl_background", K::NAME)).or_insert(0) += st.collections;
                if st.gcs == 0 {
                    *agg.entry(format!("{}.layer{lname}.background_collections_in_scenarios_without_explicit_gc", K::NAME)).or_insert(0) += st.collections;
                    if st.collections >= 2 {
                        *agg.entry(format!("{}.layer{lname}.scenarios_with_2plus_background_collections", K::NAME)).or_insert(0) += 1;
                    }
                }
                *agg.entry(format!("{}.layer{lname}.oom_results", K::NAME)).or_insert(0) += st.oom_results;
            }
            if nontrivial {
                nt += 1;
                if samples.len() < 1 {
                    samples.push(json!({"kind": K::NAME, "layer": layer, "scen": s}));
                }
            }
            *agg.entry(format!("{}.layer{lname}.results", K::NAME)).or_insert(0) += st.results;
            *agg.entry(format!("{}.layer{lname}.results_shared_between_threads", K::NAME)).or_insert(0) += st.shared_results;
            *agg.entry(format!("{}.layer{lname}.explicit_gcs", K::NAME)).or_insert(0) += st.gcs;
            let e = agg.entry(format!("{}.layer{lname}.max_result_nodes", K::NAME)).or_insert(0);
            *e = (*e).max(st.max_nodes as u64);
        }
    };
    let out = match layer {
        1 => crate::pt::run2(seed, cases, &par_strategy(), |_| {}, &mut after, test),
        2 => crate::pt::run2(seed, cases, &conc_strategy(), |_| {}, &mut after, test),
        _ => crate::pt::run2(seed, cases, &tight_strategy(), |_| {}, &mut after, test),
    };
    let layer_name = lname;
    rep.evaluations += evals;
    rep.nontrivial += nt;
    rep.class_n(&format!("{}.layer{lname}.scenarios", K::NAME), out.cases);
    for (k, v) in agg {
        rep.class_n(&k, v);
    }
    for s in samples {
        rep.sample(s);
    }
    rep.inconclusive.extend(timeouts);
    if let Some((s, msg)) = out.failure {
        rep.viol(format!("C07/{}/layer{layer_name}/{}", K::NAME, crate::hrun::category(&msg)), msg, json!({"kind": K::NAME, "layer": layer_name, "scen": s}));
    }
}

pub fn run(cfg: &Cfg) -> i32 {
    let start = Instant::now();
    if let Some(path) = cfg.replay.as_ref().filter(|p| replay_case_is(p, |c| c["scen"].is_object() || c.get("schedule").is_some())) {
        let v: Value = serde_json::from_str(&std::fs::read_to_string(path).expect("replay file")).expect("json");
        let c = &v["case"];
        if c.get("schedule").is_some() {
            return crate::c07s::replay(cfg, path, c);
        }
        let s: Scen = serde_json::from_value(c["scen"].clone()).expect("scen");
        // free-running threads: several attempts
        let mut r = Ok(CStat::default());
        for _ in 0..8 {
            r = match c["kind"].as_str().unwrap_or("bdd") {
                "bdd" => scen_isolated::<BddK>(&s),
                "bcdd" => scen_isolated::<BcddK>(&s),
                _ => scen_isolated::<ZbddK>(&s),
            };
            if r.is_err() {
                break;
            }
        }
        return match r {
            Ok(_) => {
                println!("replay: scenario passes (free-running schedules: best effort)");
                0
            }
            Err(m) if m.starts_with("timeout") => {
                println!("INCONCLUSIVE: {m}");
                2
            }
            Err(m) => {
                println!("VIOLATION property=C07 replay={path}\n  what: {m}");
                1
            }
        };
    }
    let mut jobs: Vec<Box<dyn FnMut(&mut dyn Write) + '_>> = vec![];
    let mut names = vec![];
    macro_rules! add_kind {
        ($K:ty, $salt:expr) => {
            for sh in 0..cfg.t(2, 4) {
                let s1 = mix(cfg.seed ^ (0xc07_100 + $salt * 100 + sh as u64));
                let c1 = cfg.t(300, 3000);
                names.push(format!("layer1/{}/{}", <$K>::NAME, sh));
                jobs.push(Box::new(move |w: &mut dyn Write| {
                    let mut rep = Report::default();
                    campaign::<$K>(s1, c1, 1, &mut rep);
                    rep.emit(w);
                }));
                let s2 = mix(cfg.seed ^ (0xc07_200 + $salt * 100 + sh as u64));
                let c2 = cfg.t(700, 8000);
                names.push(format!("layer2/{}/{}", <$K>::NAME, sh));
                jobs.push(Box::new(move |w: &mut dyn Write| {
                    let mut rep = Report::default();
                    campaign::<$K>(s2, c2, 2, &mut rep);
                    rep.emit(w);
                }));
                let s3 = mix(cfg.seed ^ (0xc07_300 + $salt * 100 + sh as u64));
                let c3 = cfg.t(250, 3000);
                names.push(format!("layer2b/{}/{}", <$K>::NAME, sh));
                jobs.push(Box::new(move |w: &mut dyn Write| {
                    let mut rep = Report::default();
                    campaign::<$K>(s3, c3, 3, &mut rep);
                    rep.emit(w);
                }));
            }
        };
    }
    add_kind!(BddK, 1);
    add_kind!(BcddK, 2);
    add_kind!(ZbddK, 3);
    crate::c07s::add_jobs(cfg, &mut jobs, &mut names);
    // development aid: VERIF_C07_ONLY=<substring of the job name>
    if let Ok(f) = std::env::var("VERIF_C07_ONLY") {
        let keep: Vec<bool> = names.iter().map(|n| n.contains(&f)).collect();
        let mut it = keep.iter();
        jobs.retain(|_| *it.next().unwrap());
        let mut it = keep.iter();
        names.retain(|_| *it.next().unwrap());
    }
    // these jobs are themselves multi-threaded: run fewer of them at once
    let outs = run_jobs(&mut jobs, (cfg.par / 4).max(2), cfg.t(1500, 7200));
    drop(jobs);
    let mut total = Report::default();
    merge_jobs(&mut total, outs, &names);
    conclude(
        cfg,
        &total,
        Meta {
            level: "exploration",
            rule: "layer 1 (parallel recursion): proptest scenarios with operands over 12..20 variables (adder carries, comparators, random DNFs, parities under random orders), one script of 4..14 operations (apply, ite, not, quantification, apply-quantify, gc) executed on a manager with 2/4/8/16 workers and split depth 1/3/20/auto and on a 1-worker manager: every result must have the same canonical structural hash (level, children, tags) as the sequential result. Layer 2 (free-running application threads): 2..16 OS threads each run a generated script on ONE manager (shared base functions, own results, clone/drop, explicit gc() on any thread, cache capacities 1/16/1024 to force contention); every thread's results must equal what a sequential execution of its script yields, equal functions obtained by different threads must be the same handle, and at the quiescent end the structure + reference-count audit must pass. Layer 2b: the same with 2..6 threads running 20..60 operations (incl. compute-and-drop churn) in a store only 6..60 % larger than the live functions need (capacity >= 128), so that the automatic background collector triggered by the high-water mark runs alongside the application threads, repeatedly; an operation may then fail with OutOfMemory (results depending on it are not compared), every other result must be the sequential one; non-trivial there additionally needs >= 2 collections that actually ran. Layer 3 / 3b (schedule perturbation): the scenarios of layers 2 / 2b are executed with a callback installed at OxiDD's instrumented yield points (cfg oxidd_verif: before a unique-table level is locked, slot allocation and release, the four phases of a garbage collection, apply-cache lookup and insertion) that yields, spins or sleeps as a function of (schedule seed, thread index, call counter) under three policies - uniform perturbation, one victim thread stalled at one kind of point (e.g. the collector right after it cleared the apply cache), fixed priorities with seeded inversions; non-trivial there additionally needs >= 20 perturbations. Each scenario runs in a forked child; a watchdog expiry is reported as inconclusive (exit 2), never as a violation. Non-trivial = layer-1 scenario with a result of >= 200 nodes; layer-2 scenario with >= 2 threads and >= 6 results.",
            assumptions: vec!["free-running schedules are not reproducible exactly; the replay file stores the scenario".into(), "relaxed-memory effects are invisible on x86".into()],
            extra: json!({}),
        },
        start,
    )
}
