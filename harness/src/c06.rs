//! C06 — apply cache transparency.

use std::io::Write;
use std::time::Instant;

use serde_json::{Value, json};

use crate::engine::*;
use crate::hist::*;
use crate::hrun::*;
use crate::kinds::*;

const CAPS: [usize; 4] = [1, 2, 16, 65536];

fn variants(case: &Case) -> Vec<(String, Case)> {
    let mut v = vec![];
    for cap in CAPS {
        let mut c = case.clone();
        c.cfg.cache_cap = cap;
        v.push((format!("cache={cap}"), c));
    }
    // warmed-up manager: unrelated work before every operation
    let mut c = case.clone();
    c.cfg.cache_cap = 16;
    let mut ops = vec![Op::Churn(23)];
    for (i, op) in case.ops.iter().enumerate() {
        ops.push(Op::Churn((i * 5 + 3) as u8));
        ops.push(op.clone());
    }
    c.ops = ops;
    v.push(("cache=16+warm-up".into(), c));
    v
}

fn check_case<K: BoolKind>(case: &Case, checks: Checks) -> Result<CaseStats, String> {
    let mut first: Option<(String, CaseStats)> = None;
    let mut total = CaseStats::default();
    for (name, c) in variants(case) {
        let st = run_case_isolated::<K>(&c, checks, false, &|_| Ok(())).map_err(|e| {
            if e.starts_with("timeout") { e } else { format!("{} [variant {name}]", e) }
        })?;
        match &first {
            None => {
                total = st.clone();
                first = Some((name, st));
            }
            Some((n0, s0)) => {
                if s0.digest != st.digest {
                    return Err(format!("cache-dependent: results (tables/node counts/orders) differ between {n0} and {name}"));
                }
                total.comparisons += st.comparisons;
            }
        }
    }
    Ok(total)
}

fn campaign<K: BoolKind>(seed: u64, cases: u32, nmin: u32, nmax: u32, rep: &mut Report) {
    let checks = Checks { canon: true, structure: false, rc: false, node_count: true };
    let w = Weights { apply: 30, quant: 8, subst: 10, lifecycle: 8, gc: 8, reorder: 5, add_vars: 4, rebuild: 4, repeat: 14 };
    let strat = case_strategy(w, nmin, nmax, 10..50, vec![1, 1, 3], vec![16]);
    let mut nt = 0u64;
    let mut evals = 0u64;
    let mut samples: Vec<Value> = vec![];
    let mut agg: std::collections::BTreeMap<String, u64> = Default::default();
    let out = crate::pt::run2(
        seed,
        cases,
        &strat,
        |_| {},
        |c, r: &Result<CaseStats, String>| {
            if let Ok(s) = r {
                evals += s.comparisons.max(1);
                if s.repeats_after_event + s.binpairs + s.subst_alt > 0 && s.repeats > 0 {
                    nt += 1;
                    if samples.len() < 2 {
                        samples.push(json!({"kind": K::NAME, "cfg": c.cfg, "ops": c.ops, "variants": ["cache=1", "cache=2", "cache=16", "cache=65536", "cache=16+warm-up"]}));
                    }
                }
                for (k, v) in [("repeats", s.repeats), ("repeats_after_event", s.repeats_after_event), ("binpairs", s.binpairs), ("subst_alt", s.subst_alt), ("subst_reuse", s.subst_reuse), ("gcs", s.gcs), ("reorders_effective", s.reorders_effective), ("add_vars", s.add_vars)] {
                    *agg.entry(format!("{}.{k}", K::NAME)).or_insert(0) += v;
                }
            }
        },
        |c| match check_case::<K>(c, checks) {
            Err(m) if m.starts_with("timeout") => Ok(CaseStats::default()),
            r => r,
        },
    );
    rep.evaluations += evals;
    rep.nontrivial += nt;
    rep.class_n(&format!("{}.cases_x5_variants", K::NAME), out.cases);
    for (k, v) in agg {
        rep.class_n(&k, v);
    }
    for s in samples {
        rep.sample(s);
    }
    if let Some((c, msg)) = out.failure {
        rep.viol(format!("C06/{}/{}", K::NAME, category(&msg)), msg, json!({"kind": K::NAME, "cfg": c.cfg, "ops": c.ops}));
    }
}

pub fn run(cfg: &Cfg) -> i32 {
    let start = Instant::now();
    let checks = Checks { canon: true, structure: false, rc: false, node_count: true };
    if let Some(path) = cfg.replay.as_ref().filter(|p| replay_case_is(p, |c| c["ops"].is_array() && c["cfg"].is_object())) {
        let v: Value = serde_json::from_str(&std::fs::read_to_string(path).expect("replay file")).expect("json");
        let case = &v["case"];
        let kind = case["kind"].as_str().unwrap_or("");
        let r = if matches!(kind, "mtbdd-i64" | "mtbdd-f64" | "tdd") {
            use crate::vkinds::*;
            let caps = [1usize, 2, 16, 65536];
            match kind {
                "mtbdd-i64" => crate::vhist::vreplay_variants::<MtI64K>(case, checks, &caps),
                "mtbdd-f64" => crate::vhist::vreplay_variants::<MtF64K>(case, checks, &caps),
                _ => crate::vhist::vreplay_variants::<TddK>(case, checks, &caps),
            }
        } else {
            match (serde_json::from_value::<HCfg>(case["cfg"].clone()), serde_json::from_value::<Vec<Op>>(case["ops"].clone())) {
                (Ok(hc), Ok(ops)) => {
                    let c = Case { cfg: hc, ops };
                    match kind {
                        "bdd" => check_case::<BddK>(&c, checks),
                        "bcdd" => check_case::<BcddK>(&c, checks),
                        _ => check_case::<ZbddK>(&c, checks),
                    }
                }
                _ => Err("replay: the file does not contain a history case".into()),
            }
        };
        return match r {
            Ok(_) => {
                println!("replay: case passes");
                0
            }
            Err(m) => {
                println!("VIOLATION property=C06 replay={path}\n  what: {m}");
                1
            }
        };
    }
    let mut jobs: Vec<Box<dyn FnMut(&mut dyn Write) + '_>> = vec![];
    let mut names = vec![];
    let shards = cfg.t(5, 15);
    let cases = cfg.t(500, 6000);
    macro_rules! add_kind {
        ($K:ty, $salt:expr) => {
            for sh in 0..shards {
                let seed = mix(cfg.seed ^ (0xc06_000 + $salt * 100 + sh as u64));
                names.push(format!("c06/{}/{}", <$K>::NAME, sh));
                jobs.push(Box::new(move |w: &mut dyn Write| {
                    let mut rep = Report::default();
                    campaign::<$K>(seed, cases, if sh % 2 == 0 { 3 } else { 4 }, if sh % 2 == 0 { 5 } else { 8 }, &mut rep);
                    rep.emit(w);
                }));
            }
        };
    }
    add_kind!(BddK, 1);
    add_kind!(BcddK, 2);
    add_kind!(ZbddK, 3);
    crate::c06x::add_jobs(cfg, &mut jobs, &mut names);
    let outs = run_jobs(&mut jobs, cfg.par, cfg.t(900, 7200));
    drop(jobs);
    let mut total = Report::default();
    merge_jobs(&mut total, outs, &names);
    conclude(
        cfg,
        &total,
        Meta {
            level: "exploration",
            rule: "every proptest history (BDD/BCDD/ZBDD; apply, ite, quantification, restrict, substitution objects reused and alternated, gc/reorder/add_vars, Repeat = same operator+operands again, BinPair = two different operators on identical operands back to back, SubstAlt = s1,s2,s1 on one function) is executed on five managers: apply-cache capacity 1, 2, 16, 65536 and capacity 16 with unrelated warm-up work before every operation. Each run must agree with the truth-table model at every step, repeated operations must return the identical handle, pairwise canonicity must hold, and the per-step digests (table, node count, variable order) of the five runs must be identical. MTBDD/TDD operator-pair cases are added by their adapters (min/max, add/sub, ...). Non-trivial = history containing a repetition and at least one BinPair / SubstAlt / repetition after gc, reorder or add_vars.",
            assumptions: vec!["cache-less build (no apply-cache feature) is compared in C20".into()],
            extra: json!({"capacities": CAPS}),
        },
        start,
    )
}
