//! command line of the `vrun` binary
#![allow(unused_imports)]
use crate::*;
use crate::engine::Cfg;

pub fn main() {
    let args: Vec<String> = std::env::args().collect();
    if args.len() < 3 {
        eprintln!("usage: vrun <property> <quick|thorough> [--replay <file>]");
        std::process::exit(2);
    }
    let prop = args[1].to_uppercase();
    let thorough = match args[2].as_str() {
        "quick" => false,
        "thorough" => true,
        t => {
            eprintln!("unknown tier {t}");
            std::process::exit(2)
        }
    };
    let mut replay = None;
    let mut i = 3;
    while i < args.len() {
        if args[i] == "--replay" && i + 1 < args.len() {
            replay = Some(args[i + 1].clone());
            i += 1;
        }
        i += 1;
    }
    // replay files recorded by another build variant are replayed by that build
    if let Some(path) = &replay {
        if engine::variant() == "release" {
            let v: Option<serde_json::Value> = std::fs::read_to_string(path).ok().and_then(|s| serde_json::from_str(&s).ok());
            let want = v.as_ref().and_then(|v| v["variant"].as_str()).unwrap_or("release").to_string();
            let envvar = match want.as_str() {
                "debug-assertions" => Some("VERIF_RELCHECK_BIN"),
                "asan" => Some("VERIF_ASAN_BIN"),
                _ => None,
            };
            if let Some(envvar) = envvar {
                match std::env::var(envvar) {
                    Ok(bin) => {
                        use std::os::unix::process::CommandExt;
                        let e = std::process::Command::new(bin).args(&args[1..]).env("VERIF_VARIANT", &want).env("ASAN_OPTIONS", "detect_leaks=0:abort_on_error=1:allocator_may_return_null=1").exec();
                        eprintln!("cannot exec the {want} build: {e}");
                        std::process::exit(2);
                    }
                    Err(_) => {
                        eprintln!("replay needs the {want} build (run through bin/check; for asan: VERIF_ASAN=1 bin/check ...)");
                        std::process::exit(2);
                    }
                }
            }
        }
    }
    let seed: u64 = std::env::var("VERIF_SEED").ok().and_then(|s| s.trim().parse::<i128>().ok()).map(|v| v as u64).unwrap_or(0);
    let seed = if seed == 0 { 0x5eed_0a1d_d00d } else { seed };
    let par: usize = std::env::var("VERIF_PAR").ok().and_then(|s| s.parse().ok()).unwrap_or_else(|| std::thread::available_parallelism().map(|n| n.get()).unwrap_or(8));
    // a replay restores the recorded seed and tier (used by modules that replay the campaign)
    let (mut seed, mut thorough, mut replay_sig) = (seed, thorough, None);
    if let Some(path) = &replay {
        if let Some(v) = std::fs::read_to_string(path).ok().and_then(|s| serde_json::from_str::<serde_json::Value>(&s).ok()) {
            if let Some(s) = v["seed"].as_u64() {
                seed = s;
            }
            if let Some(t) = v["tier"].as_str() {
                thorough = t == "thorough";
            }
            replay_sig = v["signature"].as_str().map(|s| s.to_string());
        }
    }
    let cfg = Cfg { prop: prop.clone(), thorough, seed, par, replay, replay_sig };
    // worker threads of OxiDD managers get 1 GiB stacks by default; keep them small
    if std::env::var("OXIDD_STACK_SIZE").is_err() {
        unsafe { std::env::set_var("OXIDD_STACK_SIZE", "2097152") };
    }
    if prop == "FZSEEDS" {
        fz::write_seeds(&format!("{}/harness/fuzz/seeds", engine::verif_dir()));
        return;
    }
    if prop == "FZRUN" {
        // vrun FZRUN quick <target> <file>...: run saved inputs through a fuzz entry point in-process
        let t = args.get(3).cloned().unwrap_or_default();
        let mut bad = 0;
        for f in &args[4.min(args.len())..] {
            let d = std::fs::read(f).unwrap_or_default();
            match fz::run_target(&t, &d) {
                Ok(()) => println!("{f}: ok"),
                Err(m) => {
                    bad += 1;
                    println!("{f}: {m}");
                }
            }
        }
        std::process::exit(if bad > 0 { 1 } else { 0 });
    }
    if prop == "DBG2" {
        use kinds::BoolKind;
        use oxidd::{BooleanFunction, ManagerRef, Manager};
        let mr = kinds::BddK::new_manager(90, 16, 1);
        mr.with_manager_exclusive(|m| m.add_vars(8));
        let which = std::env::var("W").unwrap_or_default();
        let vs = build::vars::<kinds::BddK>(&mr, 8);
        println!("nodes after vars: {}", kinds::BddK::num_inner_nodes(&mr));
        let fill = c14::fill_pub::<kinds::BddK>(&mr, 82).unwrap();
        println!("nodes after fill: {}", kinds::BddK::num_inner_nodes(&mr));
        if which.contains('o') {
            let r = vs[0].and(&vs[1]);
            println!("and at full store: {:?}", r.is_ok());
        }
        if which.contains('g') {
            println!("extra gc removed {}", kinds::BddK::gc(&mr));
        }
        if which.contains('a') {
            let hs: Vec<&<kinds::BddK as BoolKind>::F> = vs.iter().chain(fill.iter()).collect();
            println!("audit: {:?}", kinds::BddK::audit(&mr, &hs, true).map(|_| ()));
        }
        drop(fill);
        println!("gc removed {}", kinds::BddK::gc(&mr));
        println!("nodes after gc: {}", kinds::BddK::num_inner_nodes(&mr));
        let mut held = vec![];
        for i in 0..6 {
            let r = if which.contains('i') { vs[i % 6].ite(&vs[i % 6 + 1], &vs[i % 6 + 2]) } else { vs[i % 7].and(&vs[i % 7 + 1]) };
            println!("and {i}: ok={} nodes {}", r.is_ok(), kinds::BddK::num_inner_nodes(&mr));
            held.push(r);
        }
        return;
    }
    if prop == "DBG" {
        // vrun dbg <tier-ignored> --replay file : run a history in-process with dumps
        let v: serde_json::Value = serde_json::from_str(&std::fs::read_to_string(cfg.replay.as_ref().unwrap()).unwrap()).unwrap();
        let case = &v["case"];
        let hc: hist::HCfg = serde_json::from_value(case["cfg"].clone()).unwrap();
        let ops: Vec<hist::Op> = serde_json::from_value(case["ops"].clone()).unwrap();
        let checks = hist::Checks { canon: true, structure: true, rc: true, node_count: true };
        macro_rules! go {
            ($K:ty) => {{
                use kinds::BoolKind;
                let mut h = hist::Hist::<$K>::new(&hc, checks);
                for (i, op) in ops.iter().enumerate() {
                    println!("--- step {i}: {op:?}");
                    let r = h.step(op);
                    println!("{}", <$K>::dump(&h.mr));
                    for (j, e) in h.pool.iter().enumerate() {
                        use oxidd::Function;
                        println!("  pool[{j}] table {:?} root {:?}", e.t, e.f.with_manager_shared(|_, ed| { use oxidd::Edge; ed.node_id() }));
                    }
                    if let Err(e) = r {
                        println!("FAIL: {e}");
                        break;
                    }
                }
            }};
        }
        match case["kind"].as_str().unwrap() {
            "bdd" => go!(kinds::BddK),
            "bcdd" => go!(kinds::BcddK),
            _ => go!(kinds::ZbddK),
        }
        return;
    }
    if let Some(rc) = fzrun::replay(&cfg) {
        std::process::exit(rc);
    }
    let code = match prop.as_str() {
        "C01" => c01::run(&cfg),
        "C02" => c02::run(&cfg),
        "C03" => histprops::c03(&cfg),
        "C04" => c04::run(&cfg),
        "C05" => histprops::c05(&cfg),
        "C07" => c07::run(&cfg),
        "C08" => c08::run(&cfg),
        "C09" => c09::run(&cfg),
        "C10" => c10::run(&cfg),
        "C11" => c11::run(&cfg),
        "C12" => c12::run(&cfg),
        "C13" => c13::run(&cfg),
        "C14" => c14::run(&cfg),
        "C15" => c15::run(&cfg),
        "C16" => c16::run(&cfg),
        "C17" => c17::run(&cfg),
        "C18" => c18::run(&cfg),
        "C19" => c19::run(&cfg),
        "C20" => c20::run(&cfg),
        "C06" => c06::run(&cfg),
        _ => {
            eprintln!("no check for {prop}");
            2
        }
    };
    std::process::exit(code);
}
