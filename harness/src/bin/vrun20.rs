//! C20 recorder: the same generated histories and the exhaustive 3-variable suite are executed
//! by this binary built under every feature configuration; it writes one digest line per case.
#![allow(dead_code)]
#![allow(clippy::all)]

#[path = "../build.rs"]
mod build;
#[path = "../c02.rs"]
mod c02;
#[path = "../engine.rs"]
mod engine;
#[path = "../hist.rs"]
mod hist;
#[path = "../hrun.rs"]
mod hrun;
#[path = "../kinds.rs"]
mod kinds;
#[path = "../model.rs"]
mod model;
#[path = "../pt.rs"]
mod pt;

use std::io::Write;

use oxidd::{BooleanFunction, Function};
use proptest::strategy::{Strategy, ValueTree};
use serde_json::json;

use engine::*;
use hist::*;
use kinds::*;
use model::*;

fn n3_suite<K: BoolKind>(order: &[u32], threads: u32) -> Result<u64, String> {
    let mr = build::mk_manager::<K>(3, order, 1 << 12, 1 << 8, threads);
    let vs = build::vars::<K>(&mr, 3);
    let mut memo = Default::default();
    let fns: Vec<K::F> = (0..256u64).map(|t| build::from_shannon::<K>(&mr, &vs, &TT::from_u64(3, t), &mut memo)).collect();
    drop(memo);
    let mut d = 0u64;
    for (t, f) in fns.iter().enumerate() {
        let got = K::table(f, 3);
        if got != TT::from_u64(3, t as u64) {
            return Err(format!("n3: table {t:02x} built as {got:?}"));
        }
        let (cnt, exp) = (f.node_count(), K::ref_count(&got, order));
        if cnt != exp {
            return Err(format!("n3: node_count of {t:02x} = {cnt}, reference {exp}"));
        }
        d = mix(d ^ (t as u64) << 16 ^ cnt as u64);
    }
    for a in (0..256).step_by(3) {
        for b in (0..256).step_by(5) {
            for op in [BinOp::And, BinOp::Xor, BinOp::Imp] {
                let r = c02::apply_op(op, &fns[a], &fns[b]);
                let exp = op.u8(a as u8, b as u8) as usize;
                if r != fns[exp] {
                    return Err(format!("n3: {op:?}({a:02x},{b:02x}) is not the handle of {exp:02x}"));
                }
                d = mix(d ^ exp as u64 ^ (r.node_count() as u64) << 8);
            }
        }
    }
    let handles: Vec<&K::F> = fns.iter().chain(vs.iter()).collect();
    let info = K::audit(&mr, &handles, true).map_err(|e| format!("n3: audit: {e}"))?;
    d = mix(d ^ info.inner_nodes as u64);
    K::gc(&mr);
    d = mix(d ^ K::num_inner_nodes(&mr) as u64);
    Ok(d)
}

fn record<K: BoolKind>(out: &mut dyn Write, seed: u64, cases: u32, threads: &[u32]) {
    let checks = Checks { canon: true, structure: true, rc: true, node_count: true };
    for &th in threads {
        for order in permutations(3) {
            let res = isolated(120, |w| {
                let r = n3_suite::<K>(&order, th);
                let _ = writeln!(w, "{}", json!({"d": r.as_ref().ok(), "err": r.as_ref().err()}));
            });
            let v: serde_json::Value = res.lines.iter().filter_map(|l| serde_json::from_str(l).ok()).find(|v: &serde_json::Value| v.get("d").is_some() || v.get("err").is_some()).unwrap_or(json!({"err": format!("crash: {:?}", res.end)}));
            let _ = writeln!(out, "{}", json!({"case": format!("n3/{}/{:?}", K::NAME, order), "threads": th, "digest": v["d"], "err": v["err"]}));
        }
    }
    let w = Weights { reorder: 8, gc: 8, ..Weights::default() };
    let strat = case_strategy(w, 3, 8, 10..50, vec![1], vec![16, 4096]);
    let mut r = pt::runner(seed ^ K::NAME.len() as u64 * 7919 ^ K::NAME.as_bytes()[1] as u64, cases);
    for i in 0..cases {
        let c = strat.new_tree(&mut r).unwrap().current();
        for &th in threads {
            let mut c2 = c.clone();
            c2.cfg.threads = th;
            let res = hrun::run_case_isolated::<K>(&c2, checks, false, &|_| Ok(()));
            let (digest, nontrivial, err) = match &res {
                Ok(s) => (Some(s.digest), s.max_nodes >= 3 && (s.gcs > 0 || s.reorders_effective > 0), None),
                Err(e) => (None, false, Some(e.clone())),
            };
            let _ = writeln!(out, "{}", json!({"case": format!("hist/{}/{i}", K::NAME), "threads": th, "digest": digest, "nontrivial": nontrivial, "err": err, "history": if err.is_some() { Some(json!({"kind": K::NAME, "cfg": c2.cfg, "ops": c2.ops})) } else { None }}));
        }
    }
}

fn main() {
    let args: Vec<String> = std::env::args().collect();
    if args.len() < 5 {
        eprintln!("usage: vrun20 <out file> <seed> <cases> <threads,threads,...>");
        std::process::exit(2);
    }
    if std::env::var("OXIDD_STACK_SIZE").is_err() {
        unsafe { std::env::set_var("OXIDD_STACK_SIZE", "2097152") };
    }
    let seed: u64 = args[2].parse().unwrap();
    let cases: u32 = args[3].parse().unwrap();
    let threads: Vec<u32> = args[4].split(',').map(|s| s.parse().unwrap()).collect();
    let mut f = std::fs::File::create(&args[1]).expect("create digest file");
    record::<BddK>(&mut f, seed, cases, &threads);
    record::<BcddK>(&mut f, seed, cases, &threads);
    record::<ZbddK>(&mut f, seed, cases, &threads);
}
