//! C20 recorder: the same generated histories and the exhaustive 3-variable suite are executed
//! by this binary built under every feature configuration; it writes one digest line per case.
#![allow(dead_code)]
#![allow(clippy::all)]

#[path = "../build.rs"]
mod build;
#[path = "../c02.rs"]
mod c02;
#[path = "../c09.rs"]
mod c09;
#[path = "../engine.rs"]
mod engine;
#[path = "../hist.rs"]
mod hist;
#[path = "../hrun.rs"]
mod hrun;
#[path = "../kinds.rs"]
mod kinds;
#[path = "../model.rs"]
mod model;
#[path = "../pt.rs"]
mod pt;

use std::io::Write;

use oxidd::{BooleanFunction, Function, ManagerRef};
use proptest::strategy::{Strategy, ValueTree};
use serde_json::json;

use engine::*;
use hist::*;
use kinds::*;
use model::*;

fn n3_suite<K: BoolKind>(order: &[u32], threads: u32) -> Result<u64, String> {
    let mr = build::mk_manager::<K>(3, order, 1 << 12, 1 << 8, threads);
    let vs = build::vars::<K>(&mr, 3);
    let mut memo = Default::default();
    let fns: Vec<K::F> = (0..256u64).map(|t| build::from_shannon::<K>(&mr, &vs, &TT::from_u64(3, t), &mut memo)).collect();
    drop(memo);
    let mut d = 0u64;
    for (t, f) in fns.iter().enumerate() {
        let got = K::table(f, 3);
        if got != TT::from_u64(3, t as u64) {
            return Err(format!("n3: table {t:02x} built as {got:?}"));
        }
        let (cnt, exp) = (f.node_count(), K::ref_count(&got, order));
        if cnt != exp {
            return Err(format!("n3: node_count of {t:02x} = {cnt}, reference {exp}"));
        }
        d = mix(d ^ (t as u64) << 16 ^ cnt as u64);
    }
    for a in (0..256).step_by(3) {
        for b in (0..256).step_by(5) {
            for op in [BinOp::And, BinOp::Xor, BinOp::Imp] {
                let r = c02::apply_op(op, &fns[a], &fns[b]);
                let exp = op.u8(a as u8, b as u8) as usize;
                if r != fns[exp] {
                    return Err(format!("n3: {op:?}({a:02x},{b:02x}) is not the handle of {exp:02x}"));
                }
                d = mix(d ^ exp as u64 ^ (r.node_count() as u64) << 8);
            }
        }
    }
    let handles: Vec<&K::F> = fns.iter().chain(vs.iter()).collect();
    let info = K::audit(&mr, &handles, true).map_err(|e| format!("n3: audit: {e}"))?;
    d = mix(d ^ info.inner_nodes as u64);
    K::gc(&mr);
    d = mix(d ^ K::num_inner_nodes(&mr) as u64);
    Ok(d)
}


/// Operations repeated on the SAME handles before and after variables are added (results that
/// depend on the set of levels must not be served from state of the smaller manager).
fn addvars_suite<K: BoolKind>(order: &[u32], threads: u32) -> Result<u64, String> {
    use oxidd::{Manager, ManagerRef};
    let mr = build::mk_manager::<K>(3, order, 1 << 14, 1 << 10, threads);
    let vs = build::vars::<K>(&mr, 3);
    let mut memo = Default::default();
    let fns: Vec<K::F> = (0..256u64).map(|t| build::from_shannon::<K>(&mr, &vs, &TT::from_u64(3, t), &mut memo)).collect();
    drop(memo);
    // 27 literal cubes, kept alive across the additions
    let mut cubes: Vec<(K::F, u8)> = vec![];
    for code in 0..27u8 {
        let mut acc = mr.with_manager_shared(|m| K::F::t(m));
        for v in 0..3u32 {
            match (code / 3u8.pow(v)) % 3 {
                1 => acc = acc.and(&vs[v as usize]).map_err(|_| "oom")?,
                2 => acc = acc.and(&vs[v as usize].not().map_err(|_| "oom")?).map_err(|_| "oom")?,
                _ => {}
            }
        }
        cubes.push((acc, code));
    }
    let mut d = 0u64;
    let mut n = 3u32;
    for phase in 0..3 {
        // model of a handle created over 3 variables, read over n variables
        let base = |t3: u8| -> TT {
            TT::from_fn(n, |a| {
                let low = (t3 >> (a & 7)) & 1 == 1;
                if K::KIND == BKind::Zbdd { low && (a >> 3) == 0 } else { low }
            })
        };
        let cube_table = |code: u8| -> u8 {
            let mut t = 0u8;
            for a in 0..8u8 {
                let ok = (0..3).all(|v| match (code / 3u8.pow(v)) % 3 {
                    1 => (a >> v) & 1 == 1,
                    2 => (a >> v) & 1 == 0,
                    _ => true,
                });
                if ok {
                    t |= 1 << a;
                }
            }
            t
        };
        for t in (0..256usize).step_by(if phase == 0 { 1 } else { 1 }) {
            let bt = base(t as u8);
            // not
            let r = fns[t].not().map_err(|_| "oom")?;
            let got = K::table(&r, n);
            if got != bt.not() {
                return Err(format!("addvars: not({t:02x}) with {n} variables (phase {phase}) = {got:?}, expected {:?}", bt.not()));
            }
            d = mix(d ^ r.node_count() as u64);
            // restrict by the persistent cubes
            for (cube, code) in cubes.iter().skip(t % 3).step_by(3) {
                let ct = base(cube_table(*code));
                let r = fns[t].restrict(cube).map_err(|_| "oom")?;
                // literals implied by the cube (over n variables)
                let mut exp = bt;
                for v in 0..n {
                    let (pos, neg) = (ct.and(&TT::var(n, v).not()).is_zero(), ct.and(&TT::var(n, v)).is_zero());
                    if ct.is_zero() {
                        break;
                    }
                    if pos {
                        exp = exp.cof(v, true);
                    } else if neg {
                        exp = exp.cof(v, false);
                    }
                }
                if ct.is_zero() {
                    continue;
                }
                let got = K::table(&r, n);
                if got != exp {
                    return Err(format!("addvars: restrict({t:02x}, cube {code}) with {n} variables (phase {phase}) = {got:?}, expected {exp:?}"));
                }
                d = mix(d ^ (r.node_count() as u64) << 3);
            }
            // binary operators on persistent handles
            let u = (t * 7 + 3) % 256;
            let r = fns[t].xor(&fns[u]).map_err(|_| "oom")?;
            if K::table(&r, n) != bt.xor(&base(u as u8)) {
                return Err(format!("addvars: xor({t:02x},{u:02x}) with {n} variables (phase {phase}) is wrong"));
            }
            let r = fns[t].imp(&fns[u]).map_err(|_| "oom")?;
            if K::table(&r, n) != bt.not().or(&base(u as u8)) {
                return Err(format!("addvars: imp({t:02x},{u:02x}) with {n} variables (phase {phase}) is wrong"));
            }
            d = mix(d ^ (r.node_count() as u64) << 5);
        }
        if phase < 2 {
            let k = 1 + phase as u32;
            mr.with_manager_exclusive(|m| m.add_vars(k));
            n += k;
        }
    }
    Ok(d)
}

/// A diagram of more than 100 000 nodes (f = OR_i x_i AND x_{i+16} over 32 variables in the
/// order x_0 .. x_31): `node_count()` against an explicit walk, for f, its complement and a second
/// function sharing most nodes, again after a collection. Node stores lay nodes out in pages or
/// chunks; the small suites never leave the first one.
fn big_suite<K: BoolKind>(threads: u32) -> Result<u64, String> {
    const KH: u32 = 16;
    let n = 2 * KH;
    let order: Vec<u32> = (0..n).collect();
    let mr = build::mk_manager::<K>(n, &order, 1 << 20, 1 << 16, threads);
    let vs = build::vars::<K>(&mr, n);
    let mut f = mr.with_manager_shared(|m| K::F::f(m));
    for i in 0..KH as usize {
        let t = vs[i].and(&vs[i + KH as usize]).map_err(|_| "big: oom".to_string())?;
        f = f.or(&t).map_err(|_| "big: oom".to_string())?;
    }
    let g = f.xor(&vs[(n - 1) as usize]).map_err(|_| "big: oom".to_string())?;
    let nf = f.not().map_err(|_| "big: oom".to_string())?;
    let mut d = 0u64;
    for round in 0..2 {
        for (name, h) in [("f", &f), ("f xor x31", &g), ("not f", &nf)] {
            let (cnt, walk) = (h.node_count(), K::walk_count(h));
            if cnt != walk {
                return Err(format!("big: node_count({name}) = {cnt}, an explicit walk over the diagram finds {walk} distinct nodes (round {round})"));
            }
            d = mix(d ^ cnt as u64);
        }
        // spot checks of the function itself
        for a in [0u64, 0x0001_0001, 0x8000_8000, 0x8000_0000, 0x0000_ffff, 0xffff_0000, 0x1234_1234, 0x1234_4321] {
            let args: Vec<(u32, bool)> = (0..n).map(|v| (v, (a >> v) & 1 == 1)).collect();
            let exp = (a & 0xffff) & (a >> 16) != 0;
            if f.eval(args.iter().copied()) != exp {
                return Err(format!("big: f({a:#x}) != {exp} (round {round})"));
            }
        }
        K::gc(&mr);
    }
    if K::KIND != BKind::Zbdd && f.node_count() < 100_000 {
        return Err(format!("big: f has only {} nodes", f.node_count()));
    }
    Ok(d)
}

fn record<K: BoolKind>(out: &mut dyn Write, seed: u64, cases: u32, threads: &[u32]) {
    let checks = Checks { canon: true, structure: true, rc: true, node_count: true };
    for &th in threads {
        for order in permutations(3) {
            let res = isolated(120, |w| {
                let r = n3_suite::<K>(&order, th);
                let _ = writeln!(w, "{}", json!({"d": r.as_ref().ok(), "err": r.as_ref().err()}));
            });
            let v: serde_json::Value = res.lines.iter().filter_map(|l| serde_json::from_str(l).ok()).find(|v: &serde_json::Value| v.get("d").is_some() || v.get("err").is_some()).unwrap_or(json!({"err": format!("crash: {:?}", res.end)}));
            let _ = writeln!(out, "{}", json!({"case": format!("n3/{}/{:?}", K::NAME, order), "threads": th, "digest": v["d"], "err": v["err"]}));
        }
    }
    for &th in threads {
        for order in permutations(3) {
            let res = isolated(120, |w| {
                let r = addvars_suite::<K>(&order, th);
                let _ = writeln!(w, "{}", json!({"d": r.as_ref().ok(), "err": r.as_ref().err()}));
            });
            let v: serde_json::Value = res.lines.iter().filter_map(|l| serde_json::from_str(l).ok()).find(|v: &serde_json::Value| v.get("d").is_some() || v.get("err").is_some()).unwrap_or(json!({"err": format!("crash: {:?}", res.end)}));
            let _ = writeln!(out, "{}", json!({"case": format!("n3-addvars/{}/{:?}", K::NAME, order), "threads": th, "digest": v["d"], "err": v["err"]}));
        }
    }
    // (not for ZBDDs: without an apply cache their operations on a diagram of this size do not
    // finish; the node stores and the node-set code are shared by all kinds)
    for &th in threads.iter().filter(|_| K::KIND != BKind::Zbdd) {
        let res = isolated(300, |w| {
            let r = big_suite::<K>(th);
            let _ = writeln!(w, "{}", json!({"d": r.as_ref().ok(), "err": r.as_ref().err()}));
        });
        let v: serde_json::Value = res.lines.iter().filter_map(|l| serde_json::from_str(l).ok()).find(|v: &serde_json::Value| v.get("d").is_some() || v.get("err").is_some()).unwrap_or(json!({"err": format!("crash: {:?}", res.end)}));
        let _ = writeln!(out, "{}", json!({"case": format!("big/{}", K::NAME), "threads": th, "digest": v["d"], "err": v["err"]}));
    }
    // ZBDD set-family operations (subset0/subset1/change/union/intsec/diff/make_node), all 256
    // families of 3 variables: the exhaustive suite of C09 under this configuration
    if K::KIND == BKind::Zbdd {
        for &th in threads {
            for (oi, order) in permutations(3).into_iter().enumerate() {
                // managers with several workers are ~50x slower per operation: two orders there
                if th > 1 && oi % 3 != 1 {
                    continue;
                }
                let res = isolated(300, |w| {
                    let mut rep = Report::default();
                    c09::exh3(&order, th, &mut rep);
                    let err = rep.viols.first().map(|v| format!("zbdd-sets: {}", v.what));
                    let _ = writeln!(w, "{}", json!({"d": if err.is_none() { Some(mix(rep.evaluations)) } else { None }, "err": err}));
                });
                let v: serde_json::Value = res.lines.iter().filter_map(|l| serde_json::from_str(l).ok()).find(|v: &serde_json::Value| v.get("d").is_some() || v.get("err").is_some()).unwrap_or(json!({"err": format!("crash: {:?}", res.end)}));
                let _ = writeln!(out, "{}", json!({"case": format!("n3-sets/zbdd/{:?}", order), "threads": th, "digest": v["d"], "err": v["err"]}));
            }
        }
    }
    let w = Weights { reorder: 8, gc: 8, add_vars: 6, repeat: 12, rebuild: 8, ..Weights::default() };
    let strat = case_strategy(w, 3, 8, 10..50, vec![1], vec![16, 4096]);
    let mut r = pt::runner(seed ^ K::NAME.len() as u64 * 7919 ^ K::NAME.as_bytes()[1] as u64, cases);
    for i in 0..cases {
        let c = strat.new_tree(&mut r).unwrap().current();
        for &th in threads {
            let mut c2 = c.clone();
            c2.cfg.threads = th;
            let res = hrun::run_case_isolated::<K>(&c2, checks, false, &|_| Ok(()));
            let (digest, nontrivial, err) = match &res {
                Ok(s) => (Some(s.digest), s.max_nodes >= 3 && (s.gcs > 0 || s.reorders_effective > 0), None),
                Err(e) => (None, false, Some(e.clone())),
            };
            let _ = writeln!(out, "{}", json!({"case": format!("hist/{}/{i}", K::NAME), "threads": th, "digest": digest, "nontrivial": nontrivial, "err": err, "history": if err.is_some() { Some(json!({"kind": K::NAME, "cfg": c2.cfg, "ops": c2.ops})) } else { None }}));
        }
    }
}

fn main() {
    let args: Vec<String> = std::env::args().collect();
    if args.len() < 5 {
        eprintln!("usage: vrun20 <out file> <seed> <cases> <threads,threads,...> [kind]");
        std::process::exit(2);
    }
    if std::env::var("OXIDD_STACK_SIZE").is_err() {
        unsafe { std::env::set_var("OXIDD_STACK_SIZE", "2097152") };
    }
    let seed: u64 = args[2].parse().unwrap();
    let cases: u32 = args[3].parse().unwrap();
    let threads: Vec<u32> = args[4].split(',').map(|s| s.parse().unwrap()).collect();
    let mut f = std::fs::File::create(&args[1]).expect("create digest file");
    let only = args.get(5).map(|s| s.as_str());
    if only.is_none() || only == Some("bdd") {
        record::<BddK>(&mut f, seed, cases, &threads);
    }
    if only.is_none() || only == Some("bcdd") {
        record::<BcddK>(&mut f, seed, cases, &threads);
    }
    if only.is_none() || only == Some("zbdd") {
        record::<ZbddK>(&mut f, seed, cases, &threads);
    }
}
