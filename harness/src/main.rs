fn main() {
    vrun::cli::main()
}
