//! vrun — property checks for OxiDD (see /verif/DESIGN.md)
#![allow(clippy::all)]
#![allow(dead_code)]

mod build;
mod engine;
mod kinds;
mod model;
mod pt;

mod c01;
mod c01x;
mod c02;
mod hist;
mod hrun;

use engine::Cfg;

fn main() {
    let args: Vec<String> = std::env::args().collect();
    if args.len() < 3 {
        eprintln!("usage: vrun <property> <quick|thorough> [--replay <file>]");
        std::process::exit(2);
    }
    let prop = args[1].to_uppercase();
    let thorough = match args[2].as_str() {
        "quick" => false,
        "thorough" => true,
        t => {
            eprintln!("unknown tier {t}");
            std::process::exit(2)
        }
    };
    let mut replay = None;
    let mut i = 3;
    while i < args.len() {
        if args[i] == "--replay" && i + 1 < args.len() {
            replay = Some(args[i + 1].clone());
            i += 1;
        }
        i += 1;
    }
    let seed: u64 = std::env::var("VERIF_SEED").ok().and_then(|s| s.trim().parse::<i128>().ok()).map(|v| v as u64).unwrap_or(0);
    let seed = if seed == 0 { 0x5eed_0a1d_d00d } else { seed };
    let par: usize = std::env::var("VERIF_PAR").ok().and_then(|s| s.parse().ok()).unwrap_or_else(|| std::thread::available_parallelism().map(|n| n.get()).unwrap_or(8));
    let cfg = Cfg { prop: prop.clone(), thorough, seed, par, replay };
    // worker threads of OxiDD managers get 1 GiB stacks by default; keep them small
    if std::env::var("OXIDD_STACK_SIZE").is_err() {
        unsafe { std::env::set_var("OXIDD_STACK_SIZE", "16777216") };
    }
    let code = match prop.as_str() {
        "C01" => c01::run(&cfg),
        "C02" => c02::run(&cfg),
        _ => {
            eprintln!("no check for {prop}");
            2
        }
    };
    std::process::exit(code);
}
