//! In-process entry points for the coverage-guided fuzz targets in /verif/fuzz (libFuzzer via
//! cargo-fuzz). Each function decodes the raw bytes into structured arguments, resets / reuses
//! process state explicitly, runs the same oracle as the proptest campaign of the property and
//! returns `Err(message)` for a violation (the fuzz target turns that into a crash, so libFuzzer
//! saves and minimises the input). Inputs of open known findings are excluded by construction.
//!
//! The same functions replay a saved input through `bin/check <ID> quick --replay <file>`
//! (replay files of the form {"case": {"fuzz_target": .., "input_hex": ..}}).

use std::cell::RefCell;
use std::collections::HashMap;

use crate::c17::{HOp, HashFn, HASHES};
use crate::c18::{CSpec, L};
use crate::engine::*;
use crate::kinds::*;
use crate::refnat::RefNat;

pub const TARGETS: &[(&str, &str)] = &[("history", "C05"), ("dddmp_import", "C15"), ("parsers", "C18"), ("simplify", "C18"), ("rawtable", "C17"), ("natural", "C12")];

pub fn run_target(name: &str, data: &[u8]) -> Result<(), String> {
    match name {
        "history" => history(data),
        "dddmp_import" => dddmp_import(data),
        "parsers" => parsers(data),
        "simplify" => simplify(data),
        "rawtable" => rawtable(data),
        "natural" => natural(data),
        _ => Err(format!("harness: unknown fuzz target {name}")),
    }
}

/// little byte reader: missing bytes read as 0 (so every prefix decodes)
struct Rd<'a>(&'a [u8], usize);
impl Rd<'_> {
    fn u8(&mut self) -> u8 {
        let b = self.0.get(self.1).copied().unwrap_or(0);
        self.1 += 1;
        b
    }
    fn u64(&mut self) -> u64 {
        (0..8).fold(0u64, |a, i| a | (self.u8() as u64) << (8 * i))
    }
    fn left(&self) -> usize {
        self.0.len().saturating_sub(self.1)
    }
}

// --------------------------------------------------------------------------------------------
// C15: DDDMP import of arbitrary bytes: rejected, or a well-formed diagram; never a panic
// --------------------------------------------------------------------------------------------

thread_local! {
    // one manager per (kind, variable count) for the whole process: creating a manager per
    // input would exhaust threads (see DESIGN.md); functions are dropped and collected instead
    static BDD_MGRS: RefCell<HashMap<u32, MRef<BddK>>> = RefCell::new(HashMap::new());
    static BCDD_MGRS: RefCell<HashMap<u32, MRef<BcddK>>> = RefCell::new(HashMap::new());
    static ZBDD_MGRS: RefCell<HashMap<u32, MRef<ZbddK>>> = RefCell::new(HashMap::new());
    static ITER: RefCell<u64> = RefCell::new(0);
}

pub fn dddmp_import(data: &[u8]) -> Result<(), String> {
    if data.is_empty() {
        return Ok(());
    }
    let sel = data[0];
    let file = &data[1..];
    // open known finding header-sized-allocation: counts >= 2^27 declared in the header
    if known("C15", "header-sized-allocation") && crate::c18::huge_count_at(file, 1 << 22) {
        return Ok(());
    }
    let n = 2 + (sel >> 2) as u32 % 5;
    let it = ITER.with(|i| {
        *i.borrow_mut() += 1;
        *i.borrow()
    });
    macro_rules! go {
        ($K:ty, $M:ident) => {{
            $M.with(|m| {
                let mut m = m.borrow_mut();
                let mr = m.entry(n).or_insert_with(|| crate::c15::malformed_manager::<$K>(n, &[]));
                let r = crate::c15::import_malformed::<$K>(mr, n, file);
                if it % 64 == 0 {
                    <$K>::gc(mr);
                }
                r.map(|_| ())
            })
        }};
    }
    match sel & 3 {
        0 => go!(BddK, BDD_MGRS),
        1 => go!(BcddK, BCDD_MGRS),
        _ => go!(ZbddK, ZBDD_MGRS),
    }
}

// --------------------------------------------------------------------------------------------
// C18: parsers on arbitrary bytes (no panic); equivalent ASCII/binary AIGER agree
// --------------------------------------------------------------------------------------------

pub fn parsers(data: &[u8]) -> Result<(), String> {
    if data.is_empty() {
        return Ok(());
    }
    let sel = data[0];
    let input = &data[1..];
    if known("C18", "header-sized-allocation") && crate::c18::huge_count_at(input, 1 << 22) {
        return Ok(());
    }
    let o = crate::c18::opts(sel & 1 == 1, sel & 2 == 2, sel & 4 == 0);
    crate::c18::parse_all(input, &o).map(|_| ())
}

// --------------------------------------------------------------------------------------------
// C18: Circuit::simplify on decoded circuits (incl. cyclic / out-of-range references)
// --------------------------------------------------------------------------------------------

pub fn decode_circuit(data: &[u8]) -> CSpec {
    let mut r = Rd(data, 0);
    let inputs = 1 + r.u8() % 6;
    let ngates = 1 + r.u8() % 12;
    let mut gates = vec![];
    let lit = |r: &mut Rd, g: u8| -> L {
        let b = r.u8();
        let neg = b & 1 == 1;
        match (b >> 1) % 12 {
            0 => L::F,
            1 => L::T,
            2..=5 => L::In(neg, r.u8() % inputs),
            // mostly references to earlier gates (acyclic), sometimes arbitrary ones
            6..=9 => L::Gate(neg, if g == 0 { r.u8() % ngates } else { r.u8() % g }),
            10 => L::Gate(neg, r.u8() % ngates),
            _ => {
                if r.u8() % 2 == 0 {
                    L::In(neg, inputs) // unknown input
                } else {
                    L::Undef
                }
            }
        }
    };
    for g in 0..ngates {
        let k = r.u8();
        let len = (k >> 2) % 5;
        let ins = (0..len).map(|_| lit(&mut r, g)).collect();
        gates.push((k % 3, ins));
    }
    let nroots = 1 + r.u8() % 3;
    let roots = (0..nroots)
        .map(|_| {
            let b = r.u8();
            L::Gate(b & 1 == 1, (b >> 1) % ngates)
        })
        .collect();
    CSpec { inputs, gates, roots }
}

pub fn simplify(data: &[u8]) -> Result<(), String> {
    let spec = decode_circuit(data);
    match std::panic::catch_unwind(|| crate::c18::check_circuit(&spec)) {
        Ok(r) => r.map(|_| ()),
        Err(e) => Err(format!("simplify-panic: {}", panic_msg(&e))),
    }
}

// --------------------------------------------------------------------------------------------
// C17: RawTable operation sequences against a BTreeSet
// --------------------------------------------------------------------------------------------

pub fn decode_rawtable(data: &[u8]) -> (HashFn, u32, bool, Vec<HOp>) {
    let mut r = Rd(data, 0);
    let sel = r.u8();
    let f = HASHES[sel as usize % HASHES.len()];
    let universe = if sel & 0x40 != 0 { 200 } else { 24 };
    let usize_status = sel & 0x80 != 0;
    let mut ops = vec![];
    while r.left() > 0 && ops.len() < 400 {
        let b = r.u8();
        let op = match b % 24 {
            0..=7 => HOp::Insert(r.u8()),
            8..=11 => HOp::Remove(r.u8()),
            12..=14 => HOp::Get(r.u8()),
            15 | 16 => {
                let a = r.u8();
                HOp::Retain(a >> 1, a & 1 == 1)
            }
            17 => HOp::DrainAll,
            18 => HOp::DrainPart(r.u8()),
            19 => HOp::Clear,
            20 => HOp::Reserve(r.u8()),
            21 => HOp::CloneContinue,
            22 => {
                if b & 0x20 != 0 {
                    HOp::IterMutCheck
                } else {
                    HOp::IterCheck
                }
            }
            _ => HOp::IntoIterRestart,
        };
        ops.push(op);
    }
    (f, universe, usize_status, ops)
}

pub fn rawtable(data: &[u8]) -> Result<(), String> {
    let (f, universe, us, ops) = decode_rawtable(data);
    let r = std::panic::catch_unwind(|| if us { crate::c17::run_seq::<usize>(f, universe, &ops).0 } else { crate::c17::run_seq::<u32>(f, universe, &ops).0 });
    match r {
        Ok(r) => r,
        Err(e) => Err(format!("rawtable-panic: {}", panic_msg(&e))),
    }
}

// --------------------------------------------------------------------------------------------
// C12: Natural arithmetic / comparison / formatting against RefNat
// --------------------------------------------------------------------------------------------

pub fn natural(data: &[u8]) -> Result<(), String> {
    let mut r = Rd(data, 0);
    let mut operand = |r: &mut Rd| -> RefNat {
        let sel = r.u8();
        let len = (sel & 7) as usize;
        let mut d: Vec<u64> = (0..len)
            .map(|_| match r.u8() % 6 {
                0 => 0,
                1 => u64::MAX,
                2 => 1 << 63,
                3 => 1,
                _ => r.u64(),
            })
            .collect();
        let tz = (sel >> 3) as u32;
        if !d.is_empty() && tz < 24 {
            d[0] &= !0u64 << (tz * 64 / 24);
        }
        RefNat::from_digits(&d)
    };
    let a = operand(&mut r);
    let b = operand(&mut r);
    let mut ops = vec![];
    while r.left() > 0 && ops.len() < 16 {
        let k = r.u8();
        ops.push(match k % 3 {
            0 => crate::c12::NatOp::Add(operand(&mut r).0.clone(), 0),
            1 => crate::c12::NatOp::Shl(((k as u16) << 2 | r.u8() as u16 >> 6) % 300),
            _ => crate::c12::NatOp::Shr(((k as u16) << 2 | r.u8() as u16 >> 6) % 300),
        });
    }
    crate::c12::natural_case(&a, &b, &ops)
}

/// Writes the starting corpora (small valid inputs) into `<dir>/<target>/`.
pub fn write_seeds(dir: &str) {
    let put = |t: &str, name: String, data: Vec<u8>| {
        let d = format!("{dir}/{t}");
        let _ = std::fs::create_dir_all(&d);
        let _ = std::fs::write(format!("{d}/{name}"), data);
    };
    // parsers: every seed file under two option sets
    for (i, s) in crate::c18::SEEDS.iter().enumerate() {
        for sel in [0u8, 7] {
            let mut d = vec![sel];
            d.extend_from_slice(s);
            put("parsers", format!("seed-{i}-{sel}"), d);
        }
    }
    // dddmp: valid exports; the selector byte must announce the right kind and variable count
    let out = isolated(120, |w| {
        use std::io::Write;
        macro_rules! go {
            ($K:ty, $k:expr) => {
                for (i, (n, _order, file)) in crate::c15::base_files::<$K>(0x5eed).into_iter().enumerate() {
                    if !(2..=6).contains(&n) {
                        continue;
                    }
                    let sel = ($k as u8) | (((n - 2) as u8) << 2);
                    let mut d = vec![sel];
                    d.extend_from_slice(&file);
                    let _ = writeln!(w, "{}", serde_json::json!({"name": format!("seed-{}-{i}", <$K>::NAME), "hex": crate::c18::hex(&d)}));
                }
            };
        }
        go!(BddK, 0);
        go!(BcddK, 1);
        go!(ZbddK, 2);
    });
    for l in &out.lines {
        if let Ok(v) = serde_json::from_str::<serde_json::Value>(l) {
            if let (Some(n), Some(h)) = (v["name"].as_str(), v["hex"].as_str()) {
                put("dddmp_import", n.to_string(), crate::c18::unhex(h));
            }
        }
    }
    // structured targets: a few short inputs so that the first executions are not all empty
    put("history", "seed-bdd".into(), vec![0, 1, 0, 0, 1, 0x80, 0, 4, 0, 0, 0x80, 0, 23, 26, 0, 1, 0, 2, 0, 3, 0, 4, 0, 5, 0, 6, 0, 7, 0, 8, 0, 0x1f, 5, 0, 0, 0xff, 0, 29, 20, 0, 0, 23]);
    put("history", "seed-zbdd".into(), vec![2, 1, 0, 0, 2, 0x40, 0, 36, 0, 0, 0xc0, 0, 15, 0, 0, 0, 3, 0, 4, 24, 28, 0, 0]);
    put("rawtable", "seed-0".into(), vec![0, 0, 1, 0, 2, 8, 1, 12, 2, 15, 3, 21, 0, 3]);
    put("rawtable", "seed-1".into(), vec![0xc1, 0, 1, 0, 9, 0, 17, 8, 9, 17, 12, 17, 18, 1, 12, 1]);
    put("simplify", "seed-0".into(), vec![2, 3, 8, 4, 0, 4, 1, 9, 12, 0, 13, 1, 10, 4, 1, 6, 0, 1, 2]);
    put("natural", "seed-0".into(), vec![2, 5, 1, 2, 3, 4, 5, 6, 7, 8, 1, 1, 0, 3, 1, 64, 2, 0]);
}

// --------------------------------------------------------------------------------------------
// C01/C03/C05: operation histories on ONE persistent manager per kind (5 variables), all audits
// after every step; afterwards every handle is dropped and a collection must return the manager
// to its initial node count. add_vars is not part of this target (the manager would grow).
// --------------------------------------------------------------------------------------------

const HN: u32 = 5;
thread_local! {
    static H_BDD: RefCell<Option<MRef<BddK>>> = const { RefCell::new(None) };
    static H_BCDD: RefCell<Option<MRef<BcddK>>> = const { RefCell::new(None) };
    static H_ZBDD: RefCell<Option<MRef<ZbddK>>> = const { RefCell::new(None) };
}

pub fn decode_history(data: &[u8]) -> (u8, Vec<crate::hist::Op>) {
    use crate::hist::Op;
    use crate::model::BINOPS;
    let mut r = Rd(data, 0);
    let sel = r.u8();
    let mut ops = vec![];
    let mut u16_ = |r: &mut Rd| (r.u8() as u16) << 8 | r.u8() as u16;
    while r.left() > 0 && ops.len() < 60 {
        let b = r.u8();
        let op = match b % 32 {
            0 => Op::Const(b & 32 != 0),
            1 | 2 => Op::Var(u16_(&mut r)),
            3 => Op::NotVar(u16_(&mut r)),
            4..=9 => Op::Bin(BINOPS[(b >> 5) as usize % 8], u16_(&mut r), u16_(&mut r)),
            10 => Op::Not(u16_(&mut r)),
            11 | 12 => Op::Ite(u16_(&mut r), u16_(&mut r), u16_(&mut r)),
            13 => Op::Quant(b >> 5, u16_(&mut r), u16_(&mut r)),
            14 => Op::ApplyQuant(b >> 5, BINOPS[r.u8() as usize % 8], u16_(&mut r), u16_(&mut r), u16_(&mut r)),
            15 => Op::Restrict(u16_(&mut r), u16_(&mut r), u16_(&mut r)),
            16 => Op::NewSubst(b >> 5, u16_(&mut r), vec![u16_(&mut r), u16_(&mut r)]),
            17 => Op::Subst(b >> 5, u16_(&mut r)),
            18 => Op::Cofactor(u16_(&mut r), b & 32 != 0),
            19 => Op::Clone(u16_(&mut r)),
            20 | 21 => Op::Drop(u16_(&mut r)),
            22 => Op::DropAll,
            23 | 24 => Op::Gc,
            25 => Op::Churn(r.u8()),
            26 | 27 => Op::SetOrder((0..8).map(|_| u16_(&mut r)).collect(), u16_(&mut r), b & 32 != 0),
            28 => Op::Rebuild(u16_(&mut r)),
            29 => Op::Repeat,
            30 => Op::BinPair(BINOPS[(b >> 5) as usize % 8], BINOPS[r.u8() as usize % 8], u16_(&mut r), u16_(&mut r)),
            31 if b >> 5 >= 4 => Op::DumpRound(u16_(&mut r), u16_(&mut r), b >> 5),
            _ => Op::SubstAlt(b >> 5, r.u8(), u16_(&mut r)),
        };
        ops.push(op);
    }
    (sel, ops)
}

pub fn history(data: &[u8]) -> Result<(), String> {
    use crate::hist::{Checks, Hist};
    let (sel, ops) = decode_history(data);
    let checks = Checks { canon: true, structure: true, rc: true, node_count: true };
    macro_rules! go {
        ($K:ty, $M:ident) => {{
            $M.with(|m| {
                let mut m = m.borrow_mut();
                let mr = m.get_or_insert_with(|| {
                    let order: Vec<u32> = (0..HN).collect();
                    crate::build::mk_manager::<$K>(HN, &order, 1 << 14, 1 << 8, 1)
                });
                let base = if <$K>::KIND == crate::model::BKind::Zbdd { HN as usize } else { 0 };
                let r = {
                    let mut h = Hist::<$K>::with_manager(mr.clone(), HN, checks);
                    std::panic::catch_unwind(std::panic::AssertUnwindSafe(|| h.run(&ops))).unwrap_or_else(|e| Err(format!("history-panic: {}", panic_msg(&e))))
                    // h (pool, substitutions) is dropped here
                };
                r?;
                <$K>::gc(mr);
                let left = <$K>::num_inner_nodes(mr);
                if left != base {
                    return Err(format!("baseline-after-history: after dropping every handle and gc() the manager holds {left} inner nodes, initially {base}"));
                }
                Ok(())
            })
        }};
    }
    match sel % 3 {
        0 => go!(BddK, H_BDD),
        1 => go!(BcddK, H_BCDD),
        _ => go!(ZbddK, H_ZBDD),
    }
}
