//! C11 — TDD operations = pointwise lifting of one fixed three-valued logic.

use std::collections::HashMap;
use std::io::Write;
use std::time::Instant;

use serde_json::json;

use crate::engine::*;
use crate::hist::Checks;
use crate::vhist::*;
use crate::vkinds::*;
use crate::vmodel::*;

type K = TddK;

fn table_from_code(n: u32, code: usize) -> VT<Tri> {
    VT::from_fn(n, 3, |i| TRIS[(code / 3usize.pow(i as u32)) % 3])
}

fn suite(n: u32, codes: &[usize], order: &[u32], ite_step: usize, rep: &mut Report) {
    let ctx = json!({"kind": "tdd", "n": n, "order": order, "functions": codes.len()});
    progress(&json!({"sig": "C11/crash-setup", "ctx": ctx}).to_string());
    let mr = vmk_manager::<K>(n, order, 1 << 10, 1);
    // constants and variables
    for (v, name) in [(Tri::F, "f"), (Tri::U, "u"), (Tri::T, "t")] {
        let c = K::constant(&mr, &v).unwrap();
        rep.evaluations += 1;
        let got = K::table(&c, n);
        if got != VT::constant(n, 3, v) {
            rep.viol(format!("C11/const-{name}"), format!("constant {name} evaluates to {:?}", got.vals), json!({"ctx": ctx, "constant": name}));
        }
    }
    for v in 0..n {
        let x = K::var(&mr, v).unwrap();
        rep.evaluations += 1;
        let exp = VT::from_fn(n, 3, |i| TRIS[(i / 3usize.pow(v)) % 3]);
        if K::table(&x, n) != exp {
            rep.viol("C11/var", format!("var({v}) evaluates to {:?}", K::table(&x, n).vals), json!({"ctx": ctx, "var": v}));
        }
    }
    let tables: Vec<VT<Tri>> = codes.iter().map(|&c| table_from_code(n, c)).collect();
    let mut memo = HashMap::new();
    let mut fns = vec![];
    for t in &tables {
        let f = match vbuild::<K>(&mr, t, &mut memo) {
            Ok(f) => f,
            Err(e) => {
                rep.viol("C11/construct", e, json!({"ctx": ctx}));
                return;
            }
        };
        rep.evaluations += 1;
        let got = K::table(&f, n);
        if got != *t {
            // input-based signature: does the table contain unknown as a constant part?
            rep.viol("C11/construct", format!("building {:?} yields {:?}", t.vals, got.vals), json!({"ctx": ctx, "table": format!("{:?}", t.vals)}));
            return;
        }
        // eval (library) on all three-valued assignments
        for i in 0..t.size() {
            let d: Vec<usize> = (0..n).map(|v| (i / 3usize.pow(v)) % 3).collect();
            rep.evaluations += 1;
            if K::eval(&f, &d) != t.vals[i] {
                rep.viol("C11/eval", format!("eval of {:?} at {d:?} = {:?}", t.vals, K::eval(&f, &d)), json!({"ctx": ctx}));
            }
        }
        // cofactors = children in the order true/unknown/false
        rep.evaluations += 1;
        match (K::root_level(&f), K::cofactors(&f).unwrap()) {
            (None, None) => {}
            (Some(l), Some(cs)) if cs.len() == 3 => {
                let v = order[l as usize];
                for w in 0..3 {
                    let exp = t.cof(v, 2 - w);
                    if K::table(&cs[w], n) != exp {
                        rep.viol("C11/cofactors", format!("cofactor {w} (0=true,1=unknown,2=false) of {:?} is {:?}, expected {:?}", t.vals, K::table(&cs[w], n).vals, exp.vals), json!({"ctx": ctx}));
                    }
                }
            }
            (rl, c) => rep.viol("C11/cofactors-none", format!("root level {rl:?} but cofactors {:?}", c.map(|c| c.len())), json!({"ctx": ctx})),
        }
        fns.push(f);
    }
    let index: HashMap<VT<Tri>, usize> = tables.iter().cloned().enumerate().map(|(i, t)| (t, i)).collect();
    let check = |rep: &mut Report, r: Result<<K as VKind>::F, String>, exp: VT<Tri>, what: String, sigop: &str| {
        rep.evaluations += 1;
        match r {
            Err(e) => rep.viol(format!("C11/{sigop}"), e, json!({"ctx": ctx})),
            Ok(r) => {
                let ok = match index.get(&exp) {
                    Some(&i) => r == fns[i] || K::table(&r, n) == exp,
                    None => K::table(&r, n) == exp,
                };
                if !ok {
                    rep.viol(format!("C11/{sigop}"), format!("{what} = {:?}, the fixed truth table gives {:?}", K::table(&r, n).vals, exp.vals), json!({"ctx": ctx, "what": what}));
                }
            }
        }
    };
    let nonconst_u = |t: &VT<Tri>| t.is_const().is_none() && t.vals.contains(&Tri::U);
    for a in 0..fns.len() {
        check(rep, K::not(&fns[a]).unwrap(), tables[a].map1(|x| x.not()), format!("not({:?})", tables[a].vals), "not");
    }
    for o in 0..8usize {
        progress(&json!({"sig": format!("C11/{}/crash", TDD_BINS[o]), "ctx": ctx}).to_string());
        for a in 0..fns.len() {
            // results are dropped at once: collect them, a full store is not what is tested here
            K::gc(&mr);
            for b in 0..fns.len() {
                let exp = tables[a].map2(&tables[b], |x, y| K::bin_model(o, x, y));
                check(rep, K::bin(o, &fns[a], &fns[b]), exp, format!("{}({:?}, {:?})", TDD_BINS[o], tables[a].vals, tables[b].vals), TDD_BINS[o]);
                if nonconst_u(&tables[a]) || nonconst_u(&tables[b]) {
                    rep.nontrivial += 1;
                }
            }
        }
    }
    rep.class_n(&format!("n{n}.pairs_x_8_ops"), (8 * fns.len() * fns.len()) as u64);
    let mut n_ite = 0u64;
    for a in 0..fns.len() {
        K::gc(&mr);
        progress(&json!({"sig": "C11/ite/crash", "ctx": ctx}).to_string());
        for b in (a % ite_step..fns.len()).step_by(ite_step) {
            for c in ((a + b) % ite_step..fns.len()).step_by(ite_step) {
                let exp = tables[a].map3(&tables[b], &tables[c], |x, y, z| x.ite(*y, *z));
                n_ite += 1;
                check(rep, K::ite(&fns[a], &fns[b], &fns[c]), exp, format!("ite({:?}, {:?}, {:?})", tables[a].vals, tables[b].vals, tables[c].vals), "ite");
                if nonconst_u(&tables[a]) {
                    rep.nontrivial += 1;
                }
            }
        }
    }
    rep.class_n(&format!("n{n}.ite_triples"), n_ite);
    if rep.samples.is_empty() {
        rep.sample(json!({"ctx": ctx, "example": {"op": "imp (Lukasiewicz)", "a": "[F,U,T] (= var)", "b": "[U,U,U]", "expected": format!("{:?}", table_from_code(1, 5 + 0).vals)}}));
    }
}

pub fn run(cfg: &Cfg) -> i32 {
    let start = Instant::now();
    let checks = Checks { canon: true, structure: true, rc: false, node_count: true };
    if let Some(path) = cfg.replay.as_ref().filter(|p| replay_case_is(p, |c| c["ops"].is_array() && c["cfg"].is_object())) {
        let v: serde_json::Value = serde_json::from_str(&std::fs::read_to_string(path).expect("replay file")).expect("json");
        return match vreplay::<TddK>(&v["case"], checks) {
            Ok(_) => {
                println!("replay: case passes");
                0
            }
            Err(m) => {
                println!("VIOLATION property=C11 replay={path}\n  what: {m}");
                1
            }
        };
    }
    let mut jobs: Vec<Box<dyn FnMut(&mut dyn Write) + '_>> = vec![];
    let mut names = vec![];
    // all 27 one-variable functions: complete
    {
        let seed = mix(cfg.seed ^ 0xc11_700);
        let cases = cfg.t(600, 8000);
        names.push("wide-eval".into());
        jobs.push(Box::new(move |w: &mut dyn Write| {
            let mut rep = Report::default();
            chunked(seed, cases, 500, &mut rep, |s, n, r| crate::c02w::wide_val::<TddK>("C11", s, n, r));
            rep.emit(w);
        }));
    }
    names.push("n1".into());
    jobs.push(Box::new(|w: &mut dyn Write| {
        let mut rep = Report::default();
        let codes: Vec<usize> = (0..27).collect();
        suite(1, &codes, &[0], 1, &mut rep);
        rep.exhaustive = true;
        rep.emit(w);
    }));
    // one-variable functions lifted into a 2-variable manager under both orders, plus a seeded
    // sample of the 3^9 two-variable functions
    let k = cfg.t(90, 420);
    for (oi, order) in [vec![0u32, 1], vec![1, 0]].into_iter().enumerate() {
        for sh in 0..cfg.t(2, 6) {
            let seed = mix(cfg.seed ^ (0xc11_000 + oi as u64 * 100 + sh as u64));
            let order = order.clone();
            names.push(format!("n2/{order:?}/{sh}"));
            jobs.push(Box::new(move |w: &mut dyn Write| {
                let mut rep = Report::default();
                let mut codes: Vec<usize> = vec![0, 9841, 19682]; // constants F, U, T
                let mut s = seed;
                while codes.len() < k {
                    s = mix(s);
                    let c = (s % 19683) as usize;
                    if !codes.contains(&c) {
                        codes.push(c);
                    }
                }
                suite(2, &codes, &order, 5, &mut rep);
                rep.emit(w);
            }));
        }
    }
    for sh in 0..cfg.t(3, 6) {
        let seed = mix(cfg.seed ^ (0xc11_900 + sh as u64));
        let cases = cfg.t(600, 8000);
        names.push(format!("hist/{sh}"));
        jobs.push(Box::new(move |w: &mut dyn Write| {
            let mut rep = Report::default();
            vhist_campaign::<TddK>("C11", seed, cases, checks, 3, 5, &[64], &mut rep, &|s| s.steps > 5);
            rep.emit(w);
        }));
    }
    let outs = run_jobs(&mut jobs, cfg.par, cfg.t(900, 7200));
    drop(jobs);
    let mut total = Report::default();
    merge_jobs(&mut total, outs, &names);
    conclude(
        cfg,
        &total,
        Meta {
            level: "exploration",
            rule: "all 27 one-variable three-valued functions: all pairs x {and,or,nand,nor,xor,equiv,imp,imp_strict}, all 27^3 ite triples, not, constants f/t/u, var, cofactors (true/unknown/false child order), eval on all 3^n assignments (complete). Seeded samples of the 3^9 two-variable functions (always including the three constants) under both variable orders: all pairs x 8 connectives, strided ite triples. proptest histories over 1..3 variables with table comparison, canonicity and structure audit after every step. Oracle: Kleene strong not/and/or, Lukasiewicz imp/equiv, xor = not equiv, imp_strict(a,b) = not imp(b,a), ite as stated in the property, written out literally in the harness. Non-trivial = tuple containing a non-constant function that takes the value unknown somewhere. Wide managers: 9..200 variables (incl. 63/64/65/127/128/129) under random orders, random expressions over <= 4 variables that include the bottom level, block-boundary levels and the largest variable number; eval() with shuffled complete argument lists, repeated variables (the last value counts), and lists omitting a support variable (documented default: unknown) must give the expression's value under the model.",
            assumptions: vec!["harness is built with oxidd's `tdd` feature (off by default in the workspace test run)".into()],
            extra: json!({}),
        },
        start,
    )
}
