//! Value tables for MTBDD (base 2) and TDD (base 3) + reference arithmetic.
//! No OxiDD type is used here.

use std::collections::HashSet;
use std::hash::Hash;

#[derive(Clone, PartialEq, Eq, Hash, Debug)]
pub struct VT<V> {
    pub n: u32,
    pub base: usize,
    pub vals: Vec<V>,
}

pub fn ipow(b: usize, e: u32) -> usize {
    b.pow(e)
}

impl<V: Clone + Eq + Hash> VT<V> {
    pub fn constant(n: u32, base: usize, v: V) -> Self {
        VT { n, base, vals: vec![v; ipow(base, n)] }
    }
    pub fn from_fn(n: u32, base: usize, f: impl Fn(usize) -> V) -> Self {
        VT { n, base, vals: (0..ipow(base, n)).map(f).collect() }
    }
    pub fn size(&self) -> usize {
        self.vals.len()
    }
    #[inline]
    pub fn digit(&self, idx: usize, v: u32) -> usize {
        (idx / ipow(self.base, v)) % self.base
    }
    pub fn with_digit(&self, idx: usize, v: u32, d: usize) -> usize {
        let p = ipow(self.base, v);
        idx - self.digit(idx, v) * p + d * p
    }
    pub fn cof(&self, v: u32, d: usize) -> Self {
        VT::from_fn(self.n, self.base, |i| self.vals[self.with_digit(i, v, d)].clone())
    }
    pub fn depends(&self, v: u32) -> bool {
        (1..self.base).any(|d| self.cof(v, d) != self.cof(v, 0))
    }
    pub fn is_const(&self) -> Option<&V> {
        let f = &self.vals[0];
        if self.vals.iter().all(|x| x == f) { Some(f) } else { None }
    }
    pub fn map1(&self, f: impl Fn(&V) -> V) -> Self {
        VT { n: self.n, base: self.base, vals: self.vals.iter().map(f).collect() }
    }
    pub fn map2(&self, o: &Self, f: impl Fn(&V, &V) -> V) -> Self {
        assert_eq!((self.n, self.base), (o.n, o.base));
        VT { n: self.n, base: self.base, vals: self.vals.iter().zip(&o.vals).map(|(a, b)| f(a, b)).collect() }
    }
    pub fn map3(&self, a: &Self, b: &Self, f: impl Fn(&V, &V, &V) -> V) -> Self {
        VT { n: self.n, base: self.base, vals: (0..self.size()).map(|i| f(&self.vals[i], &a.vals[i], &b.vals[i])).collect() }
    }
    /// extend to n2 variables, new variables irrelevant
    pub fn extend(&self, n2: u32) -> Self {
        let sz = self.size();
        VT::from_fn(n2, self.base, |i| self.vals[i % sz].clone())
    }
    /// size of the unique reduced diagram (inner nodes + distinct reachable terminals)
    pub fn ref_node_count(&self, order: &[u32]) -> usize {
        fn go<V: Clone + Eq + Hash>(t: VT<V>, lvl: usize, order: &[u32], inner: &mut HashSet<VT<V>>, terms: &mut HashSet<V>) {
            if let Some(c) = t.is_const() {
                terms.insert(c.clone());
                return;
            }
            let mut l = lvl;
            while !t.depends(order[l]) {
                l += 1;
            }
            if !inner.insert(t.clone()) {
                return;
            }
            for d in 0..t.base {
                go(t.cof(order[l], d), l + 1, order, inner, terms);
            }
        }
        let mut inner = HashSet::new();
        let mut terms = HashSet::new();
        go(self.clone(), 0, order, &mut inner, &mut terms);
        inner.len() + terms.len()
    }
}

// ---------------------------------------------------------------------------
// reference integer-with-infinities arithmetic (exact through i128)
// ---------------------------------------------------------------------------

#[derive(Clone, Copy, PartialEq, Eq, Hash, Debug, serde::Serialize, serde::Deserialize)]
pub enum RI {
    NaN,
    NInf,
    Num(i64),
    PInf,
}

impl RI {
    fn from_exact(x: i128) -> RI {
        if x > i64::MAX as i128 {
            RI::PInf
        } else if x < i64::MIN as i128 {
            RI::NInf
        } else {
            RI::Num(x as i64)
        }
    }
    fn sign(self) -> i32 {
        match self {
            RI::NaN => 0,
            RI::NInf => -1,
            RI::PInf => 1,
            RI::Num(n) => n.signum() as i32,
        }
    }
    pub fn add(self, o: RI) -> RI {
        use RI::*;
        match (self, o) {
            (NaN, _) | (_, NaN) => NaN,
            (Num(a), Num(b)) => RI::from_exact(a as i128 + b as i128),
            (PInf, NInf) | (NInf, PInf) => NaN,
            (PInf, _) | (_, PInf) => PInf,
            (NInf, _) | (_, NInf) => NInf,
        }
    }
    pub fn neg(self) -> RI {
        match self {
            RI::NaN => RI::NaN,
            RI::NInf => RI::PInf,
            RI::PInf => RI::NInf,
            RI::Num(n) => RI::from_exact(-(n as i128)),
        }
    }
    pub fn sub(self, o: RI) -> RI {
        use RI::*;
        match (self, o) {
            (NaN, _) | (_, NaN) => NaN,
            (Num(a), Num(b)) => RI::from_exact(a as i128 - b as i128),
            (PInf, PInf) | (NInf, NInf) => NaN,
            (PInf, _) | (_, NInf) => PInf,
            (NInf, _) | (_, PInf) => NInf,
        }
    }
    pub fn mul(self, o: RI) -> RI {
        use RI::*;
        match (self, o) {
            (NaN, _) | (_, NaN) => NaN,
            (Num(a), Num(b)) => RI::from_exact(a as i128 * b as i128),
            _ => match self.sign() * o.sign() {
                0 => NaN, // 0 * inf
                1 => PInf,
                _ => NInf,
            },
        }
    }
    pub fn div(self, o: RI) -> RI {
        use RI::*;
        match (self, o) {
            (NaN, _) | (_, NaN) => NaN,
            (Num(a), Num(0)) => match a.signum() {
                0 => NaN,
                1 => PInf,
                _ => NInf,
            },
            (Num(a), Num(b)) => RI::from_exact(a as i128 / b as i128), // truncates toward zero
            (Num(_), PInf | NInf) => Num(0),
            (PInf | NInf, PInf | NInf) => NaN,
            (PInf | NInf, Num(b)) => {
                // inf / 0: sign of the infinity (as x/0 = +-inf by the sign of x)
                let s = self.sign() * if b < 0 { -1 } else { 1 };
                if s > 0 { PInf } else { NInf }
            }
        }
    }
    fn key(self) -> Option<i128> {
        match self {
            RI::NaN => None,
            RI::NInf => Some(i128::MIN),
            RI::PInf => Some(i128::MAX),
            RI::Num(n) => Some(n as i128),
        }
    }
    pub fn partial_cmp(self, o: RI) -> Option<std::cmp::Ordering> {
        match (self.key(), o.key()) {
            (Some(a), Some(b)) => Some(a.cmp(&b)),
            (None, None) => Some(std::cmp::Ordering::Equal),
            _ => None,
        }
    }
    pub fn min(self, o: RI) -> RI {
        match (self.key(), o.key()) {
            (Some(a), Some(b)) => if a <= b { self } else { o },
            _ => RI::NaN,
        }
    }
    pub fn max(self, o: RI) -> RI {
        match (self.key(), o.key()) {
            (Some(a), Some(b)) => if a >= b { self } else { o },
            _ => RI::NaN,
        }
    }
}

/// reference float value: f64 bits with NaN and -0.0 normalised
#[derive(Clone, Copy, PartialEq, Eq, Hash, serde::Serialize, serde::Deserialize)]
pub struct RF(pub u64);
impl std::fmt::Debug for RF {
    fn fmt(&self, f: &mut std::fmt::Formatter<'_>) -> std::fmt::Result {
        write!(f, "{:?}", f64::from_bits(self.0))
    }
}
impl RF {
    pub fn new(x: f64) -> RF {
        if x.is_nan() {
            RF(f64::NAN.to_bits())
        } else if x == 0.0 {
            RF(0f64.to_bits())
        } else {
            RF(x.to_bits())
        }
    }
    pub fn get(self) -> f64 {
        f64::from_bits(self.0)
    }
    pub fn is_nan(self) -> bool {
        self.get().is_nan()
    }
    pub fn min(self, o: RF) -> RF {
        if self.is_nan() || o.is_nan() { RF::new(f64::NAN) } else if self.get() <= o.get() { self } else { o }
    }
    pub fn max(self, o: RF) -> RF {
        if self.is_nan() || o.is_nan() { RF::new(f64::NAN) } else if self.get() >= o.get() { self } else { o }
    }
}

/// three-valued logic value
#[derive(Clone, Copy, PartialEq, Eq, Hash, Debug, PartialOrd, Ord, serde::Serialize, serde::Deserialize)]
pub enum Tri {
    F = 0,
    U = 1,
    T = 2,
}
pub const TRIS: [Tri; 3] = [Tri::F, Tri::U, Tri::T];

impl Tri {
    pub fn not(self) -> Tri {
        match self {
            Tri::F => Tri::T,
            Tri::U => Tri::U,
            Tri::T => Tri::F,
        }
    }
    // Kleene strong conjunction / disjunction, written out as tables
    pub fn and(self, o: Tri) -> Tri {
        use Tri::*;
        match (self, o) {
            (F, _) | (_, F) => F,
            (T, T) => T,
            _ => U,
        }
    }
    pub fn or(self, o: Tri) -> Tri {
        use Tri::*;
        match (self, o) {
            (T, _) | (_, T) => T,
            (F, F) => F,
            _ => U,
        }
    }
    /// Lukasiewicz implication
    pub fn imp(self, o: Tri) -> Tri {
        use Tri::*;
        match (self, o) {
            (F, _) => T,
            (_, T) => T,
            (U, U) => T,
            (U, F) => U,
            (T, U) => U,
            (T, F) => F,
        }
    }
    /// Lukasiewicz equivalence
    pub fn equiv(self, o: Tri) -> Tri {
        use Tri::*;
        match (self, o) {
            (F, F) | (U, U) | (T, T) => T,
            (F, T) | (T, F) => F,
            _ => U,
        }
    }
    pub fn xor(self, o: Tri) -> Tri {
        self.equiv(o).not()
    }
    pub fn nand(self, o: Tri) -> Tri {
        self.and(o).not()
    }
    pub fn nor(self, o: Tri) -> Tri {
        self.or(o).not()
    }
    /// imp_strict(a,b) = not imp(b,a)
    pub fn imp_strict(self, o: Tri) -> Tri {
        o.imp(self).not()
    }
    /// ite(a,b,c): b if b = c or a true; c if a false; for unknown a: or(a,c) if a = b,
    /// and(a,b) if a = c, unknown otherwise
    pub fn ite(self, b: Tri, c: Tri) -> Tri {
        if b == c || self == Tri::T {
            return b;
        }
        if self == Tri::F {
            return c;
        }
        // a unknown, b != c
        if self == b {
            self.or(c)
        } else if self == c {
            self.and(b)
        } else {
            Tri::U
        }
    }
}

#[cfg(test)]
mod tests {
    use super::*;
    #[test]
    fn ri() {
        use RI::*;
        assert_eq!(Num(i64::MIN).add(Num(-1)), NInf);
        assert_eq!(Num(i64::MAX).add(Num(1)), PInf);
        assert_eq!(Num(0).sub(Num(i64::MIN)), PInf);
        assert_eq!(Num(-2).sub(Num(i64::MAX)), NInf);
        assert_eq!(Num(i64::MIN).mul(Num(-1)), PInf);
        assert_eq!(Num(i64::MIN).div(Num(-1)), PInf);
        assert_eq!(Num(-7).div(Num(2)), Num(-3));
        assert_eq!(Num(0).mul(PInf), NaN);
        assert_eq!(PInf.sub(PInf), NaN);
        assert_eq!(Num(0).div(Num(0)), NaN);
        assert_eq!(Num(-3).div(Num(0)), NInf);
        assert_eq!(PInf.div(NInf), NaN);
        assert_eq!(Num(5).min(NaN), NaN);
        assert_eq!(Num(5).max(NInf), Num(5));
        let t = VT::from_fn(2, 2, |i| (i % 2) as u8);
        assert!(t.depends(0) && !t.depends(1));
        assert_eq!(t.ref_node_count(&[0, 1]), 3);
        assert_eq!(Tri::U.ite(Tri::U, Tri::T), Tri::T);
        assert_eq!(Tri::U.ite(Tri::T, Tri::U), Tri::U);
        assert_eq!(Tri::U.ite(Tri::T, Tri::F), Tri::U);
    }
}
