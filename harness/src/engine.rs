//! Shared plumbing: fork-based crash isolation, job pool, evidence, known findings.

use serde_json::{Value, json};
use std::collections::BTreeMap;
use std::io::Write;
use std::time::Instant;

// ---------------------------------------------------------------------------
// configuration
// ---------------------------------------------------------------------------

#[derive(Clone, Debug)]
pub struct Cfg {
    pub prop: String,
    pub thorough: bool,
    pub seed: u64,
    pub par: usize,
    pub replay: Option<String>,
    /// signature recorded in the replay file (campaign replays report only this one)
    pub replay_sig: Option<String>,
}

impl Cfg {
    pub fn tier(&self) -> &'static str {
        if self.thorough { "thorough" } else { "quick" }
    }
    /// pick by tier
    pub fn t<T>(&self, quick: T, thorough: T) -> T {
        if self.thorough { thorough } else { quick }
    }
}

/// signature without the suffix naming the build variant that produced it
pub fn strip_variant(sig: &str) -> &str {
    sig.trim_end_matches("+debug-assertions").trim_end_matches("+asan")
}

/// "release" or "debug-assertions" (the relcheck profile: OxiDD with debug assertions and
/// overflow checks, harness unchanged)
pub fn variant() -> String {
    std::env::var("VERIF_VARIANT").unwrap_or_else(|_| "release".into())
}

pub fn verif_dir() -> String {
    std::env::var("VERIF_DIR").unwrap_or_else(|_| "/verif".to_string())
}

/// splitmix64, used only to derive sub-seeds from VERIF_SEED (never inside a property)
pub fn mix(mut x: u64) -> u64 {
    x = x.wrapping_add(0x9e3779b97f4a7c15);
    x = (x ^ (x >> 30)).wrapping_mul(0xbf58476d1ce4e5b9);
    x = (x ^ (x >> 27)).wrapping_mul(0x94d049bb133111eb);
    x ^ (x >> 31)
}

// ---------------------------------------------------------------------------
// fork isolation
// ---------------------------------------------------------------------------

#[derive(Debug, Clone, PartialEq, Eq)]
pub enum End {
    Exit(i32),
    Signal(i32),
    Timeout,
}

pub struct JobOut {
    pub lines: Vec<String>,
    pub end: End,
    /// last progress marker written by the child through `progress()`
    pub progress: String,
}

const SHM_SIZE: usize = 65536;
static mut SHM: *mut u8 = std::ptr::null_mut();

/// Child side: record what is about to be executed, so that a crash can be
/// attributed to a case by the parent.
pub fn progress(s: &str) {
    unsafe {
        if SHM.is_null() {
            return;
        }
        let b = s.as_bytes();
        let n = b.len().min(SHM_SIZE - 8);
        std::ptr::copy_nonoverlapping(b.as_ptr(), SHM.add(8), n);
        std::ptr::write_volatile(SHM as *mut u64, n as u64);
    }
}

struct Running {
    pid: libc::pid_t,
    fd: i32,
    buf: Vec<u8>,
    shm: *mut u8,
    start: Instant,
    idx: usize,
}

fn spawn(idx: usize, job: &mut dyn FnMut(&mut dyn Write)) -> Running {
    unsafe {
        let shm = libc::mmap(
            std::ptr::null_mut(),
            SHM_SIZE,
            libc::PROT_READ | libc::PROT_WRITE,
            libc::MAP_SHARED | libc::MAP_ANONYMOUS,
            -1,
            0,
        ) as *mut u8;
        assert!(shm as isize != -1);
        let mut fds = [0i32; 2];
        assert_eq!(libc::pipe(fds.as_mut_ptr()), 0);
        std::io::stdout().flush().ok();
        std::io::stderr().flush().ok();
        let parent = libc::getpid();
        let pid = libc::fork();
        assert!(pid >= 0, "fork failed");
        if pid == 0 {
            // die with the parent: a killed job must not leave its own case children behind
            libc::prctl(libc::PR_SET_PDEATHSIG, libc::SIGKILL);
            if libc::getppid() != parent {
                libc::_exit(0);
            }
            libc::close(fds[0]);
            SHM = shm;
            // no core dumps
            let rl = libc::rlimit { rlim_cur: 0, rlim_max: 0 };
            libc::setrlimit(libc::RLIMIT_CORE, &rl);
            let mut w = FdWriter(fds[1]);
            let r = std::panic::catch_unwind(std::panic::AssertUnwindSafe(|| job(&mut w)));
            let code = match r {
                Ok(()) => 0,
                Err(e) => {
                    let msg = panic_msg(&e);
                    let _ = writeln!(w, "{}", json!({"panic": msg}));
                    101
                }
            };
            libc::close(fds[1]);
            libc::_exit(code);
        }
        libc::close(fds[1]);
        Running { pid, fd: fds[0], buf: vec![], shm, start: Instant::now(), idx }
    }
}

pub fn panic_msg(e: &Box<dyn std::any::Any + Send>) -> String {
    if let Some(s) = e.downcast_ref::<&str>() {
        s.to_string()
    } else if let Some(s) = e.downcast_ref::<String>() {
        s.clone()
    } else {
        "<non-string panic>".to_string()
    }
}

struct FdWriter(i32);
impl Write for FdWriter {
    fn write(&mut self, buf: &[u8]) -> std::io::Result<usize> {
        let n = unsafe { libc::write(self.0, buf.as_ptr() as *const _, buf.len()) };
        if n < 0 { Err(std::io::Error::last_os_error()) } else { Ok(n as usize) }
    }
    fn flush(&mut self) -> std::io::Result<()> {
        Ok(())
    }
}

fn finish(r: Running, end_override: Option<End>) -> (usize, JobOut) {
    unsafe {
        let mut status = 0;
        libc::waitpid(r.pid, &mut status, 0);
        libc::close(r.fd);
        let end = end_override.unwrap_or_else(|| {
            if libc::WIFEXITED(status) {
                End::Exit(libc::WEXITSTATUS(status))
            } else if libc::WIFSIGNALED(status) {
                End::Signal(libc::WTERMSIG(status))
            } else {
                End::Exit(-1)
            }
        });
        let n = (std::ptr::read_volatile(r.shm as *const u64) as usize).min(SHM_SIZE - 8);
        let progress =
            String::from_utf8_lossy(std::slice::from_raw_parts(r.shm.add(8), n)).to_string();
        libc::munmap(r.shm as *mut _, SHM_SIZE);
        let text = String::from_utf8_lossy(&r.buf).to_string();
        let lines = text.lines().filter(|l| !l.is_empty()).map(|s| s.to_string()).collect();
        (r.idx, JobOut { lines, end, progress })
    }
}

/// Run jobs in forked children, at most `par` at a time. Result order = job order.
pub fn run_jobs(
    jobs: &mut [Box<dyn FnMut(&mut dyn Write) + '_>],
    par: usize,
    timeout_s: u64,
) -> Vec<JobOut> {
    let n = jobs.len();
    let mut out: Vec<Option<JobOut>> = (0..n).map(|_| None).collect();
    let mut running: Vec<Running> = vec![];
    let mut next = 0;
    while next < n || !running.is_empty() {
        while running.len() < par.max(1) && next < n {
            running.push(spawn(next, &mut *jobs[next]));
            next += 1;
        }
        let mut pfds: Vec<libc::pollfd> =
            running.iter().map(|r| libc::pollfd { fd: r.fd, events: libc::POLLIN, revents: 0 }).collect();
        unsafe { libc::poll(pfds.as_mut_ptr(), pfds.len() as _, 200) };
        let mut i = 0;
        while i < running.len() {
            let mut done = false;
            if pfds[i].revents != 0 {
                let mut tmp = [0u8; 65536];
                let k = unsafe { libc::read(running[i].fd, tmp.as_mut_ptr() as *mut _, tmp.len()) };
                if k > 0 {
                    running[i].buf.extend_from_slice(&tmp[..k as usize]);
                } else if k == 0 {
                    done = true;
                }
            }
            if done {
                let r = running.remove(i);
                pfds.remove(i);
                let (idx, o) = finish(r, None);
                out[idx] = Some(o);
                continue;
            }
            if running[i].start.elapsed().as_secs() > timeout_s {
                unsafe { libc::kill(running[i].pid, libc::SIGKILL) };
                let r = running.remove(i);
                pfds.remove(i);
                let (idx, o) = finish(r, Some(End::Timeout));
                out[idx] = Some(o);
                continue;
            }
            i += 1;
        }
    }
    out.into_iter().map(|o| o.unwrap()).collect()
}

/// Watchdog expiries of `isolated()` children in this process (= one job). A hang is never a
/// violation, but it must not pass silently either: `Report::emit` turns the count into an
/// inconclusive note (exit 2), and after `MAX_TIMEOUTS` expiries further isolated executions
/// are skipped so that a systematic hang does not cost hours.
pub static TIMEOUTS: std::sync::atomic::AtomicU32 = std::sync::atomic::AtomicU32::new(0);
pub static SKIPPED_AFTER_TIMEOUTS: std::sync::atomic::AtomicU32 = std::sync::atomic::AtomicU32::new(0);
pub const MAX_TIMEOUTS: u32 = 3;

/// Does the replay file at `path` hold a case for which `pred` holds? Modules replay such cases
/// individually; every other file (exhaustive suites, seeded scenario rounds, crashes recorded
/// from a progress marker without the full case) is replayed by re-running the campaign with
/// the recorded seed and tier, see `conclude()`.
pub fn replay_case_is(path: &str, pred: impl Fn(&Value) -> bool) -> bool {
    std::fs::read_to_string(path).ok().and_then(|s| serde_json::from_str::<Value>(&s).ok()).map(|v| pred(&v["case"])).unwrap_or(false)
}
pub fn is_bool_kind(c: &Value) -> bool {
    matches!(c["kind"].as_str(), Some("bdd" | "bcdd" | "zbdd"))
}

/// Runs a campaign of `cases` generated cases as chunks of at most `per` cases, each chunk in
/// its own forked child. Campaigns that create one OxiDD manager per case in-process must not
/// create tens of thousands of them in one process: a manager dropped right after its creation
/// can leave its collector thread behind (lost wake-up), and the process runs out of threads.
/// Chunk 0 uses `seed` itself, so campaigns that fit into one chunk are unchanged.
pub fn chunked(seed: u64, cases: u32, per: u32, rep: &mut Report, f: impl Fn(u64, u32, &mut Report)) {
    let mut left = cases;
    let mut i = 0u64;
    while left > 0 {
        let n = left.min(per);
        let s = if i == 0 { seed } else { mix(seed ^ (0xc4_0000 + i)) };
        let out = isolated(3600, |w| {
            let mut r = Report::default();
            f(s, n, &mut r);
            r.emit(w);
        });
        merge_jobs(rep, vec![out], &[format!("chunk {i}")]);
        left -= n;
        i += 1;
        if !rep.viols.is_empty() {
            break; // like an unchunked campaign: stop at the first failure
        }
    }
}

/// Address-space limit for a forked child that feeds untrusted input to a parser (a runaway
/// allocation becomes an abort instead of exhausting the machine). Not under AddressSanitizer,
/// whose shadow memory needs terabytes of address space.
pub fn limit_address_space(bytes: u64) {
    if variant() == "asan" {
        return;
    }
    unsafe {
        let lim = libc::rlimit { rlim_cur: bytes, rlim_max: bytes };
        libc::setrlimit(libc::RLIMIT_AS, &lim);
    }
}

/// Run a single closure in a forked child.
pub fn isolated(timeout_s: u64, mut f: impl FnMut(&mut dyn Write)) -> JobOut {
    use std::sync::atomic::Ordering::Relaxed;
    if TIMEOUTS.load(Relaxed) >= MAX_TIMEOUTS {
        SKIPPED_AFTER_TIMEOUTS.fetch_add(1, Relaxed);
        return JobOut { lines: vec![], end: End::Timeout, progress: String::new() };
    }
    let mut jobs: Vec<Box<dyn FnMut(&mut dyn Write) + '_>> = vec![Box::new(|w| f(w))];
    let out = run_jobs(&mut jobs, 1, timeout_s).pop().unwrap();
    if out.end == End::Timeout {
        TIMEOUTS.fetch_add(1, Relaxed);
    }
    out
}

// ---------------------------------------------------------------------------
// report accumulation (used inside children and merged in the parent)
// ---------------------------------------------------------------------------

#[derive(Default, Clone, Debug, serde::Serialize, serde::Deserialize)]
pub struct Viol {
    /// root-cause signature computed from the *input* (see known_findings.json)
    pub sig: String,
    pub what: String,
    pub case: Value,
}

#[derive(Default, Clone, Debug, serde::Serialize, serde::Deserialize)]
pub struct Report {
    pub evaluations: u64,
    pub nontrivial: u64,
    pub classes: BTreeMap<String, u64>,
    pub samples: Vec<Value>,
    pub viols: Vec<Viol>,
    pub excluded_by_known_finding: u64,
    pub inconclusive: Vec<String>,
    pub exhaustive: bool,
}

impl Report {
    pub fn class(&mut self, c: &str) {
        *self.classes.entry(c.to_string()).or_insert(0) += 1;
    }
    pub fn class_n(&mut self, c: &str, n: u64) {
        *self.classes.entry(c.to_string()).or_insert(0) += n;
    }
    pub fn sample(&mut self, v: Value) {
        if self.samples.len() < 12 {
            self.samples.push(v);
        }
    }
    pub fn viol(&mut self, sig: impl Into<String>, what: impl Into<String>, case: Value) {
        // keep one violation per signature plus a few more, do not flood
        let sig = sig.into();
        let same = self.viols.iter().filter(|v| v.sig == sig).count();
        if same < 3 && self.viols.len() < 200 {
            self.viols.push(Viol { sig, what: what.into(), case });
        }
    }
    pub fn merge(&mut self, o: Report) {
        self.evaluations += o.evaluations;
        self.nontrivial += o.nontrivial;
        self.excluded_by_known_finding += o.excluded_by_known_finding;
        for (k, v) in o.classes {
            *self.classes.entry(k).or_insert(0) += v;
        }
        for s in o.samples {
            // spread samples over shards
            if self.samples.len() < 12 {
                self.samples.push(s);
            }
        }
        for v in o.viols {
            let same = self.viols.iter().filter(|x| x.sig == v.sig).count();
            if same < 3 && self.viols.len() < 200 {
                self.viols.push(v);
            }
        }
        self.inconclusive.extend(o.inconclusive);
    }
    pub fn emit(&self, w: &mut dyn Write) {
        use std::sync::atomic::Ordering::Relaxed;
        let t = TIMEOUTS.load(Relaxed);
        if t > 0 && !self.inconclusive.iter().any(|i| i.contains("watchdog")) {
            let mut me = self.clone();
            me.inconclusive.push(format!("{t} isolated case execution(s) hit the watchdog (hang or extreme slowness; not counted as violation), {} further executions skipped", SKIPPED_AFTER_TIMEOUTS.load(Relaxed)));
            let _ = writeln!(w, "{}", json!({"report": me}));
            return;
        }
        let _ = writeln!(w, "{}", json!({"report": self}));
    }
}

/// Merge the reports of job outputs; a job that died without a report becomes
/// either a crash violation (if it recorded a progress marker naming a case) or
/// an inconclusive note.
pub fn merge_jobs(total: &mut Report, outs: Vec<JobOut>, names: &[String]) {
    for (o, name) in outs.into_iter().zip(names) {
        let mut got = false;
        let mut panic: Option<String> = None;
        for l in &o.lines {
            if let Ok(v) = serde_json::from_str::<Value>(l) {
                if let Some(r) = v.get("report") {
                    if let Ok(r) = serde_json::from_value::<Report>(r.clone()) {
                        total.merge(r);
                        got = true;
                    }
                }
                if let Some(p) = v.get("panic") {
                    panic = Some(p.as_str().unwrap_or("").to_string());
                }
            }
        }
        match o.end {
            End::Exit(0) if got => {}
            End::Timeout => total.inconclusive.push(format!("job {name}: watchdog expired")),
            ref e => {
                // crash
                if !o.progress.is_empty() {
                    let case: Value = serde_json::from_str(&o.progress)
                        .unwrap_or_else(|_| Value::String(o.progress.clone()));
                    let sig = case
                        .get("sig")
                        .and_then(|s| s.as_str())
                        .map(|s| s.to_string())
                        .unwrap_or_else(|| format!("crash/{name}"));
                    // markers wrap the case as {"sig", "case"|"ctx"}: store what a regular
                    // violation of the same module stores, so that --replay understands it
                    let inner = case.get("case").filter(|c| c.is_object()).or_else(|| case.get("ctx").filter(|c| c.is_object())).cloned();
                    let case = match inner {
                        Some(mut c) => {
                            for (k, v) in case.as_object().unwrap() {
                                if k != "sig" && k != "case" && k != "ctx" {
                                    c.as_object_mut().unwrap().entry(k.clone()).or_insert(v.clone());
                                }
                            }
                            c
                        }
                        None => case,
                    };
                    total.viol(
                        sig,
                        format!("process died ({e:?}{}) while executing the recorded case", panic.map(|p| format!(", panic: {p}")).unwrap_or_default()),
                        case,
                    );
                } else {
                    total.inconclusive.push(format!("job {name}: ended {e:?} without a report or progress marker (panic: {panic:?})"));
                }
            }
        }
    }
}

// ---------------------------------------------------------------------------
// known findings + final verdict
// ---------------------------------------------------------------------------

#[derive(Clone, Debug, serde::Deserialize)]
pub struct Finding {
    pub property: String,
    pub signature: String,
    pub what: String,
    pub status: String,
    #[serde(default)]
    pub commit: Option<String>,
}

pub fn load_findings() -> Vec<Finding> {
    let p = format!("{}/known_findings.json", verif_dir());
    let Ok(s) = std::fs::read_to_string(&p) else { return vec![] };
    #[derive(serde::Deserialize)]
    struct File {
        findings: Vec<Finding>,
    }
    serde_json::from_str::<File>(&s).map(|f| f.findings).unwrap_or_else(|e| {
        eprintln!("known_findings.json unreadable: {e}");
        vec![]
    })
}

static FINDINGS: std::sync::OnceLock<Vec<Finding>> = std::sync::OnceLock::new();
/// Is `sig` an open known finding of `prop`? (file is read once per process, never written)
pub fn known(prop: &str, sig: &str) -> bool {
    is_known(FINDINGS.get_or_init(load_findings), prop, sig)
}

/// Is `sig` an *open* known finding of this property?
pub fn is_known(findings: &[Finding], prop: &str, sig: &str) -> bool {
    // an open finding covers the release and the debug-assertion build alike
    let sig = strip_variant(sig);
    findings.iter().any(|f| f.property == prop && f.status == "open" && f.signature == sig)
}

pub struct Meta<'a> {
    pub level: &'a str,
    pub rule: &'a str,
    pub assumptions: Vec<String>,
    pub extra: Value,
}

/// Writes evidence, prints VIOLATION / KNOWN-FINDING lines, returns exit code.
pub fn conclude(cfg: &Cfg, rep: &Report, meta: Meta, start: Instant) -> i32 {
    let mut rep_own = rep.clone();
    {
        use std::sync::atomic::Ordering::Relaxed;
        let t = TIMEOUTS.load(Relaxed);
        if t > 0 {
            rep_own.inconclusive.push(format!("{t} isolated execution(s) in the main process hit the watchdog, {} skipped afterwards", SKIPPED_AFTER_TIMEOUTS.load(Relaxed)));
        }
    }
    // --- sub-run (debug-assertion build executed by the main run): hand the raw report back
    if let Ok(path) = std::env::var("VERIF_SUB_OUT") {
        let _ = std::fs::write(&path, serde_json::to_string(&json!({"report": rep_own, "wall_s": start.elapsed().as_secs_f64()})).unwrap());
        println!("{} {} [sub-run {}]: evaluations={} nontrivial={} violations={} inconclusive={}", cfg.prop, cfg.tier(), variant(), rep_own.evaluations, rep_own.nontrivial, rep_own.viols.len(), rep_own.inconclusive.len());
        return 0;
    }
    // --- further passes of the quick tier with other builds of the same harness:
    //     "debug-assertions": OxiDD (and the code instantiating its generics) with debug assertions
    //                         and overflow checks (every run);
    //     "asan": AddressSanitizer build (nightly toolchain; thorough tier only)
    let mut relcheck_info = json!(null);
    let mut asan_info = json!(null);
    if cfg.replay.is_none() && !matches!(cfg.prop.as_str(), "C19" | "C20") {
        for (variant, envvar, label) in [("debug-assertions", "VERIF_RELCHECK_BIN", "OxiDD built with debug assertions and overflow checks"), ("asan", "VERIF_ASAN_BIN", "AddressSanitizer build")] {
            let Ok(bin) = std::env::var(envvar) else { continue };
            let vd = verif_dir();
            let _ = std::fs::create_dir_all(format!("{vd}/target/sub"));
            let out = format!("{vd}/target/sub/{}-{variant}.json", cfg.prop);
            let _ = std::fs::remove_file(&out);
            let t0 = Instant::now();
            let st = std::process::Command::new(&bin)
                .args([cfg.prop.as_str(), "quick"])
                .env("VERIF_SUB_OUT", &out)
                .env("VERIF_VARIANT", variant)
                .env("ASAN_OPTIONS", "detect_leaks=0:abort_on_error=1:allocator_may_return_null=1")
                .env("VERIF_SEED", format!("{}", if cfg.thorough { cfg.seed.wrapping_add(1) } else { cfg.seed }))
                .stdout(std::process::Stdio::null())
                .stderr(std::process::Stdio::null())
                .status();
            let sub: Option<Value> = std::fs::read_to_string(&out).ok().and_then(|s| serde_json::from_str(&s).ok());
            match (st, sub) {
                (Ok(st), Some(v)) if st.success() => {
                    if let Ok(r) = serde_json::from_value::<Report>(v["report"].clone()) {
                        let info = json!({"binary": bin, "tier": "quick", "evaluations": r.evaluations, "distinct_nontrivial": r.nontrivial, "violations": r.viols.len(), "wall_s": t0.elapsed().as_secs_f64()});
                        if variant == "asan" {
                            asan_info = info;
                        } else {
                            relcheck_info = info;
                        }
                        rep_own.evaluations += r.evaluations;
                        rep_own.nontrivial += r.nontrivial;
                        rep_own.excluded_by_known_finding += r.excluded_by_known_finding;
                        for i in r.inconclusive {
                            rep_own.inconclusive.push(format!("[{variant} build] {i}"));
                        }
                        for v in r.viols {
                            rep_own.viols.push(Viol { sig: format!("{}+{variant}", v.sig), what: format!("[{label}] {}", v.what), case: v.case });
                        }
                    }
                }
                (st, _) => rep_own.inconclusive.push(format!("{variant} build: sub-run did not deliver a report ({st:?})")),
            }
        }
    }
    let rep = &rep_own;
    let findings = load_findings();
    let vd = verif_dir();
    let mut new_viols = vec![];
    let mut known: BTreeMap<String, usize> = BTreeMap::new();
    for v in &rep.viols {
        if is_known(&findings, &cfg.prop, &v.sig) {
            *known.entry(strip_variant(&v.sig).to_string()).or_insert(0) += 1;
        } else {
            new_viols.push(v.clone());
        }
    }
    // every open finding of this property is announced (its input class is
    // excluded by construction or its violations are matched by signature)
    for f in findings.iter().filter(|f| f.property == cfg.prop && f.status == "open") {
        println!("KNOWN-FINDING: property={} {} [{}; observed {} time(s) in this run]", cfg.prop, f.what, f.signature, known.get(&f.signature).copied().unwrap_or(0));
    }
    let mut replay_paths = vec![];
    if cfg.replay.is_none() {
        let dir = format!("{vd}/replays/{}", cfg.prop);
        let _ = std::fs::remove_dir_all(&dir);
        let _ = std::fs::create_dir_all(&dir);
        let mut seen = std::collections::BTreeSet::new();
        for v in &new_viols {
            if !seen.insert(v.sig.clone()) {
                continue;
            }
            let fname = format!("{dir}/{}.json", v.sig.replace(['/', ' ', ':'], "_"));
            let mut body = json!({"property": cfg.prop, "signature": v.sig, "what": v.what, "case": v.case, "seed": cfg.seed, "tier": cfg.tier()});
            if v.sig.ends_with("+debug-assertions") {
                body["variant"] = json!("debug-assertions");
            } else if v.sig.ends_with("+asan") {
                body["variant"] = json!("asan");
            }
            let _ = std::fs::write(&fname, serde_json::to_string_pretty(&body).unwrap());
            println!("VIOLATION property={} replay={}", cfg.prop, fname);
            println!("  what: {}", v.what);
            replay_paths.push(fname);
        }
    } else {
        // campaign replay (modules without a case-level replay): the recorded seed and tier were
        // restored by main(); only the recorded signature counts
        if let Some(want) = &cfg.replay_sig {
            let want = strip_variant(want).to_string();
            new_viols.retain(|v| v.sig == want);
            if new_viols.is_empty() {
                println!("replay: the recorded violation ({want}) does not occur any more");
            }
        }
        let mut seen = std::collections::BTreeSet::new();
        for v in &new_viols {
            if !seen.insert(v.sig.clone()) {
                continue;
            }
            println!("VIOLATION property={} replay={}", cfg.prop, cfg.replay.clone().unwrap());
            println!("  what: {}", v.what);
        }
    }
    let wall = start.elapsed().as_secs_f64();
    let mut coverage = json!({
        "evaluations": rep.evaluations,
        "distinct_nontrivial": rep.nontrivial,
        "rule": if relcheck_info.is_null() { meta.rule.to_string() } else { format!("{} SECOND PASS: the quick tier of the same check is then executed by a build in which OxiDD and all dependencies are compiled with debug assertions and overflow checks (cargo profile relcheck; the harness itself unchanged), so that OxiDD's internal assertions act as additional oracles and panics that only debug builds show are found; its evaluations are included in the counts, and violations found there carry the signature suffix +debug-assertions.{}", meta.rule, if asan_info.is_null() { "" } else { " THIRD PASS (thorough tier): the quick tier is executed once more by an AddressSanitizer build of the harness and OxiDD (nightly -Zsanitizer=address), so that out-of-bounds accesses and use-after-free in OxiDD's unsafe code become crashes; signature suffix +asan." }) },
        "samples": rep.samples,
        "classes": rep.classes,
        "exhaustive": rep.exhaustive,
        "excluded_by_known_finding": rep.excluded_by_known_finding,
        "known_findings_hit": known,
        "debug_assertion_build": relcheck_info,
        "asan_build": asan_info,
        "inconclusive": rep.inconclusive,
        "violation_details": new_viols.iter().take(10).map(|v| json!({"sig": v.sig, "what": v.what, "case": v.case})).collect::<Vec<_>>(),
    });
    if let (Some(c), Some(e)) = (coverage.as_object_mut(), meta.extra.as_object()) {
        for (k, v) in e {
            c.insert(k.clone(), v.clone());
        }
    }
    let ev = json!({
        "property_id": cfg.prop,
        "tier": cfg.tier(),
        "seed": cfg.seed,
        "level": meta.level,
        "coverage": coverage,
        "assumptions": meta.assumptions,
        "wall_s": wall,
        "violations": new_viols.len(),
    });
    if cfg.replay.is_none() {
        let _ = std::fs::create_dir_all(format!("{vd}/evidence"));
        let p = format!("{vd}/evidence/{}.json", cfg.prop);
        std::fs::write(&p, serde_json::to_string_pretty(&ev).unwrap()).expect("write evidence");
    }
    println!(
        "{} {}: evaluations={} nontrivial={} violations={} known={} inconclusive={} wall={:.1}s",
        cfg.prop,
        cfg.tier(),
        rep.evaluations,
        rep.nontrivial,
        new_viols.len(),
        known.len(),
        rep.inconclusive.len(),
        wall
    );
    for (k, v) in &rep.classes {
        println!("  class {k}: {v}");
    }
    if !new_viols.is_empty() {
        1
    } else if !rep.inconclusive.is_empty() {
        for i in &rep.inconclusive {
            println!("INCONCLUSIVE: {i}");
        }
        2
    } else {
        0
    }
}
