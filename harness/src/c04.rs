//! C04 — quantification, restriction, apply-and-quantify, substitution.

use std::io::Write;
use std::time::Instant;

use oxidd::{BooleanFunction, ManagerRef, Subst};
use serde_json::json;

use crate::build::*;
use crate::c02::all256;
use crate::engine::*;
use crate::hist::*;
use crate::hrun::*;
use crate::kinds::*;
use crate::model::*;

#[inline]
fn cof3(t: u8, v: u32, val: bool) -> u8 {
    let mut r = 0u8;
    for a in 0..8u32 {
        let src = if val { a | (1 << v) } else { a & !(1 << v) };
        if (t >> src) & 1 == 1 {
            r |= 1 << a;
        }
    }
    r
}

fn quant3(q: u8, t: u8, mask: u8) -> u8 {
    let mut t = t;
    for v in 0..3 {
        if (mask >> v) & 1 == 1 {
            let (c0, c1) = (cof3(t, v, false), cof3(t, v, true));
            t = match q {
                0 => c0 | c1,
                1 => c0 & c1,
                _ => c0 ^ c1,
            };
        }
    }
    t
}

fn supp3(t: u8) -> u8 {
    (0..3).filter(|&v| cof3(t, v, false) != cof3(t, v, true)).map(|v| 1u8 << v).sum()
}

const PALETTE: [u8; 16] = [0x00, 0xff, 0xaa, 0xcc, 0xf0, 0x55, 0x88, 0xfc, 0x5a, 0x96, 0xe8, 0x0f, 0x3c, 0x2b, 0x81, 0x7e];

fn exh3<K: BoolKind>(order: &[u32], threads: u32, aq_sample: u64, sub_sample: u64, cfg: &Cfg, rep: &mut Report) {
    let ctx = json!({"kind": K::NAME, "order": order, "threads": threads});
    progress(&json!({"sig": format!("C04/{}/crash-setup", K::NAME), "ctx": ctx}).to_string());
    let mr = mk_manager::<K>(3, order, 1 << 14, 1 << 10, threads);
    let Some(fns) = all256::<K>(&mr, rep, &ctx) else { return };
    let vs = vars::<K>(&mr, 3);
    let tru = mr.with_manager_shared(|m| K::F::t(m));
    // variable sets as conjunctions
    let sets: Vec<K::F> = (0..8u8)
        .map(|mask| {
            let mut acc = tru.clone();
            for v in 0..3 {
                if (mask >> v) & 1 == 1 {
                    acc = acc.and(&vs[v]).unwrap();
                }
            }
            acc
        })
        .collect();
    let check = |rep: &mut Report, what: &str, sigop: &str, r: &K::F, exp: u8, case: serde_json::Value| {
        rep.evaluations += 1;
        if *r != fns[exp as usize] {
            let got = K::table(r, 3);
            let sig = if got.w[0] as u8 == exp { format!("C01/{}/noncanonical", K::NAME) } else { format!("C04/{}/{sigop}", K::NAME) };
            rep.viol(sig, format!("{what}: expected {exp:02x}, got {got:?}"), json!({"ctx": ctx, "case": case}));
        }
    };
    let has_quant = K::quant(0, &fns[0], &sets[0]).is_some();
    if has_quant {
        // plain quantification
        for q in 0..3u8 {
            progress(&json!({"sig": format!("C04/{}/quant{q}/crash", K::NAME), "ctx": ctx}).to_string());
            for t in 0..256usize {
                for mask in 0..8u8 {
                    let r = K::quant(q, &fns[t], &sets[mask as usize]).unwrap().expect("oom");
                    let exp = quant3(q, t as u8, mask);
                    check(rep, &format!("quant{q}({t:02x}, vars {mask:03b})"), &format!("quant{q}"), &r, exp, json!({"op": "quant", "q": q, "f": t, "vars": mask}));
                    let s = supp3(t as u8);
                    if mask != 0 && s & mask != 0 && s & !mask != 0 {
                        rep.nontrivial += 1;
                    }
                }
            }
        }
        rep.class_n(&format!("{}.quant", K::NAME), 3 * 256 * 8);
        let t0 = Instant::now();
        // apply + quantification
        let mut n_aq = 0u64;
        for q in 0..3u8 {
            for op in BINOPS {
                let bop = bool_operator(op);
                for a in 0..256usize {
                    progress(&json!({"sig": format!("C04/{}/apply_quant{q}_{op:?}/crash", K::NAME), "ctx": ctx, "a": a}).to_string());
                    for b in 0..256usize {
                        if aq_sample > 1 {
                            let h = mix(cfg.seed ^ ((q as u64) << 40 | (op as u64) << 32 | (a as u64) << 8 | b as u64));
                            if h % aq_sample != 0 {
                                continue;
                            }
                        }
                        let inner = op.u8(a as u8, b as u8);
                        for mask in 0..8u8 {
                            let r = K::apply_quant(q, bop, &fns[a], &fns[b], &sets[mask as usize]).unwrap().expect("oom");
                            let exp = quant3(q, inner, mask);
                            n_aq += 1;
                            check(rep, &format!("apply_quant{q}({op:?}, {a:02x}, {b:02x}, vars {mask:03b})"), &format!("apply_quant{q}_{op:?}"), &r, exp, json!({"op": "apply_quant", "q": q, "bop": format!("{op:?}"), "a": a, "b": b, "vars": mask}));
                            if mask != 0 && supp3(a as u8) != 0 && supp3(b as u8) != 0 && a != b {
                                rep.nontrivial += 1;
                            }
                        }
                    }
                }
            }
        }
        rep.class_n(&format!("{}.apply_quant", K::NAME), n_aq);
        if std::env::var("VERIF_TIMING").is_ok() { eprintln!("{} {:?} apply_quant {} in {:?}", K::NAME, order, n_aq, t0.elapsed()); }
        let t0 = Instant::now();
        // substitution
        let mut n_sub = 0u64;
        for mask in 1..8u8 {
            let svars: Vec<u32> = (0..3).filter(|v| (mask >> v) & 1 == 1).collect();
            let k = svars.len();
            let total = 16usize.pow(k as u32);
            progress(&json!({"sig": format!("C04/{}/substitute/crash", K::NAME), "ctx": ctx, "vars": mask}).to_string());
            for code in 0..total {
                let repl_t: Vec<u8> = (0..k).map(|i| PALETTE[(code >> (4 * i)) & 15]).collect();
                let repl: Vec<K::F> = repl_t.iter().map(|&t| fns[t as usize].clone()).collect();
                // every other substitution object is created on a freshly spawned thread:
                // ids handed out to different threads must not collide in the apply cache
                let subst = if code % 2 == 1 {
                    let sv = svars.clone();
                    std::thread::scope(|sc| sc.spawn(move || Subst::new(sv, repl)).join().unwrap())
                } else {
                    Subst::new(svars.clone(), repl)
                };
                if sub_sample > 1 && mix(cfg.seed ^ ((mask as u64) << 20 | code as u64)) % sub_sample != 0 {
                    continue;
                }
                let simultaneous = repl_t.iter().any(|&t| supp3(t) & mask != 0);
                // the same Subst object is reused for all 256 functions
                for t in 0..256usize {
                    let r = K::substitute(&fns[t], &subst).unwrap().expect("oom");
                    let mut exp = 0u8;
                    for a in 0..8u32 {
                        let mut b = a;
                        for (i, &v) in svars.iter().enumerate() {
                            if (repl_t[i] >> a) & 1 == 1 {
                                b |= 1 << v;
                            } else {
                                b &= !(1 << v);
                            }
                        }
                        if (t >> b) & 1 == 1 {
                            exp |= 1 << a;
                        }
                    }
                    n_sub += 1;
                    check(rep, &format!("substitute({t:02x}, vars {svars:?} -> {repl_t:02x?})"), "substitute", &r, exp, json!({"op": "substitute", "f": t, "vars": svars, "replacements": repl_t}));
                    if simultaneous && (supp3(t as u8) & mask).count_ones() >= 2 {
                        rep.nontrivial += 1;
                    }
                }
            }
        }
        rep.class_n(&format!("{}.substitute", K::NAME), n_sub);
        if std::env::var("VERIF_TIMING").is_ok() { eprintln!("{} {:?} substitute {} in {:?}", K::NAME, order, n_sub, t0.elapsed()); }
        // empty substitution
        let empty: Subst<K::F> = Subst::new(vec![], vec![]);
        for t in [0usize, 0x6a, 0xff] {
            let r = K::substitute(&fns[t], &empty).unwrap().expect("oom");
            check(rep, "substitute(empty)", "substitute", &r, t as u8, json!({"op": "substitute-empty", "f": t}));
        }
    }
    // restrict: every function x every literal cube
    let mut n_r = 0u64;
    for code in 0..27u32 {
        let lits: Vec<Option<bool>> = (0..3).map(|v| match (code / 3u32.pow(v)) % 3 { 0 => None, 1 => Some(true), _ => Some(false) }).collect();
        let mut cube = tru.clone();
        for v in 0..3 {
            match lits[v] {
                Some(true) => cube = cube.and(&vs[v]).unwrap(),
                Some(false) => cube = cube.and(&vs[v].not().unwrap()).unwrap(),
                None => {}
            }
        }
        progress(&json!({"sig": format!("C04/{}/restrict/crash", K::NAME), "ctx": ctx, "cube": format!("{lits:?}")}).to_string());
        for t in 0..256usize {
            let r = fns[t].restrict(&cube).expect("oom");
            let mut exp = t as u8;
            for v in 0..3u32 {
                if let Some(b) = lits[v as usize] {
                    exp = cof3(exp, v, b);
                }
            }
            n_r += 1;
            check(rep, &format!("restrict({t:02x}, {lits:?})"), "restrict", &r, exp, json!({"op": "restrict", "f": t, "cube": format!("{lits:?}")}));
            let lmask: u8 = (0..3).filter(|&v| lits[v].is_some()).map(|v| 1u8 << v).sum();
            let mixed = lits.iter().any(|l| *l == Some(true)) && lits.iter().any(|l| *l == Some(false));
            if supp3(t as u8) & lmask != 0 && supp3(t as u8).count_ones() >= 2 && mixed {
                rep.nontrivial += 1;
            }
        }
    }
    rep.class_n(&format!("{}.restrict", K::NAME), n_r);
    if rep.samples.is_empty() {
        rep.sample(json!({"ctx": ctx, "suite": "all 256 functions x {8 variable subsets x 3 quantifiers, 27 literal cubes, all pairs x 8 operators x 8 subsets x 3 quantifiers (sampled for BDD in quick), 4912 replacement vectors over a 16-function palette}", "example": {"op": "apply_exists", "inner": "Imp", "a": "0x6a", "b": "0x3c", "vars": "{x1}", "expected": format!("{:02x}", quant3(0, BinOp::Imp.u8(0x6a, 0x3c), 0b010))}}));
    }
}

pub fn run(cfg: &Cfg) -> i32 {
    let start = Instant::now();
    let checks = Checks { canon: false, structure: false, rc: false, node_count: false };
    if let Some(path) = cfg.replay.as_ref().filter(|p| replay_case_is(p, |c| is_bool_kind(c) && c["ops"].is_array())) {
        let v: serde_json::Value = serde_json::from_str(&std::fs::read_to_string(path).expect("replay file")).expect("json");
        let case = &v["case"];
        let r = match case["kind"].as_str().unwrap_or("") {
            "bdd" => replay_case::<BddK>("C04", case, checks),
            "bcdd" => replay_case::<BcddK>("C04", case, checks),
            "zbdd" => replay_case::<ZbddK>("C04", case, checks),
            _ => Err("replay: exhaustive-suite cases are replayed by re-running the tier".to_string()),
        };
        return match r {
            Ok(_) => {
                println!("replay: case passes");
                0
            }
            Err(m) => {
                println!("VIOLATION property=C04 replay={path}\n  what: {m}");
                1
            }
        };
    }
    let perms = permutations(3);
    let mut jobs: Vec<Box<dyn FnMut(&mut dyn Write) + '_>> = vec![];
    let mut names = vec![];
    macro_rules! add_kind {
        ($K:ty, $salt:expr, $aq_quick:expr) => {
            for (oi, order) in perms.iter().enumerate() {
                let order = order.clone();
                let aq = cfg.t($aq_quick, 1);
                names.push(format!("exh3/{}/{:?}", <$K>::NAME, order));
                let o2 = order.clone();
                jobs.push(Box::new(move |w: &mut dyn Write| {
                    let mut rep = Report::default();
                    exh3::<$K>(&order, 1, aq, 1, cfg, &mut rep);
                    rep.emit(w);
                }));
                // multi-threaded apply algorithms: every operation is handed to the worker
                // pool (tens of microseconds each), so this configuration is sampled
                if oi % 2 == 1 || cfg.thorough {
                    names.push(format!("exh3-mt/{}/{:?}", <$K>::NAME, o2));
                    jobs.push(Box::new(move |w: &mut dyn Write| {
                        let mut rep = Report::default();
                        exh3::<$K>(&o2, 3, cfg.t(512, 32), cfg.t(64, 8), cfg, &mut rep);
                        rep.emit(w);
                    }));
                }
            }
            for sh in 0..cfg.t(2, 6) {
                let job = HistJob {
                    prop: "C04",
                    seed: mix(cfg.seed ^ (0xc04_000 + $salt * 100 + sh as u64)),
                    cases: cfg.t(800, 8000),
                    weights: Weights { apply: 20, quant: 20, subst: 24, lifecycle: 6, gc: 8, reorder: 3, add_vars: 2, rebuild: 2, repeat: 4 },
                    nmin: 4,
                    nmax: 8,
                    len: 10..50,
                    threads: vec![1, 1, 4],
                    caches: vec![2, 64, 4096],
                    checks,
                };
                names.push(format!("hist/{}/{}", <$K>::NAME, sh));
                jobs.push(Box::new(move |w: &mut dyn Write| {
                    let mut rep = Report::default();
                    hist_campaign::<$K>(&job, &mut rep, &|s| s.quant > 0 && (s.subst_reuse > 0 || s.subst_alt > 0), &|_| Ok(()));
                    rep.emit(w);
                }));
            }
        };
    }
    add_kind!(BddK, 1, 8);
    add_kind!(BcddK, 2, 2);
    add_kind!(ZbddK, 3, 1);
    let outs = run_jobs(&mut jobs, cfg.par, cfg.t(900, 7200));
    drop(jobs);
    let mut total = Report::default();
    merge_jobs(&mut total, outs, &names);
    conclude(
        cfg,
        &total,
        Meta {
            level: "exploration",
            rule: "exhaustive n=3 under all 6 orders: exists/forall/unique for every function x every variable subset; restrict for every function x all 27 literal cubes (BDD, BCDD, ZBDD); apply_exists/forall/unique for all 256^2 operand pairs x 8 inner operators x 8 subsets (thorough: complete; quick: seeded 1/2 sample for BCDD, 1/8 for BDD); substitute for every function x every non-empty subset of substituted variables x every replacement vector over a 16-function palette (one Subst object reused for all 256 functions). Oracle: cofactor arithmetic on u8 truth tables. Plus proptest histories over 4..8 variables with quantification/restriction/substitution objects reused and alternated across gc/reorder. Non-trivial = quantified set splits the support / cube mixes polarities on a >=2-variable support / a replacement depends on a substituted variable while f depends on >=2 substituted variables (true simultaneity) / both operands non-constant and distinct with a non-empty set.",
            assumptions: vec!["ZBDD and MTBDD only implement restrict (MTBDD restrict is checked in C10)".into()],
            extra: json!({"palette": PALETTE}),
        },
        start,
    )
}
