//! C20 — build configurations are observationally equivalent.

use std::collections::BTreeMap;
use std::process::Command;
use std::time::Instant;

use serde_json::{Value, json};

use crate::engine::*;

const CONFIGS: [(&str, &str); 8] = [
    ("index-cache-mt", "index cache mt"),
    ("pointer-cache-mt", "pointer cache mt"),
    ("index-nocache-mt", "index mt"),
    ("pointer-nocache-mt", "pointer mt"),
    ("index-cache-st", "index cache"),
    ("pointer-cache-st", "pointer cache"),
    ("index-nocache-st", "index"),
    ("pointer-nocache-st", "pointer"),
];

pub fn build_config(name: &str, features: &str) -> Result<String, String> {
    let vd = verif_dir();
    let out_dir = format!("{vd}/target/c20");
    std::fs::create_dir_all(&out_dir).map_err(|e| e.to_string())?;
    let st = Command::new("cargo")
        .current_dir(format!("{vd}/harness"))
        .env("CARGO_NET_OFFLINE", "true")
        .args(["build", "--release", "--offline", "--no-default-features", "--features", features, "--bin", "vrun20"])
        .output()
        .map_err(|e| format!("cargo: {e}"))?;
    if !st.status.success() {
        return Err(format!("build of configuration {name} failed:\n{}", String::from_utf8_lossy(&st.stderr).lines().filter(|l| l.starts_with("error")).take(5).collect::<Vec<_>>().join("\n")));
    }
    let dst = format!("{out_dir}/vrun20-{name}");
    std::fs::copy(format!("{vd}/target/release/vrun20"), &dst).map_err(|e| format!("copy: {e}"))?;
    Ok(dst)
}

pub fn run(cfg: &Cfg) -> i32 {
    let start = Instant::now();
    let mut rep = Report::default();
    let configs: Vec<(&str, &str)> = if cfg.thorough { CONFIGS.to_vec() } else { CONFIGS[..4].iter().chain(&CONFIGS[6..7]).cloned().collect() };
    let cases = cfg.t(160, 800);
    let threads = "1,2,8";
    let vd = verif_dir();
    // builds are sequential (they share the cargo target directory), runs are parallel
    let mut bins = vec![];
    for (name, feats) in &configs {
        match build_config(name, feats) {
            Ok(b) => bins.push((name.to_string(), b)),
            Err(e) => {
                rep.inconclusive.push(e);
            }
        }
    }
    let mut children = vec![];
    // one recorder process per (configuration, kind): 15..24 processes
    for (name, bin) in &bins {
        for kind in ["bdd", "bcdd", "zbdd"] {
            let out = format!("{vd}/target/c20/digest-{name}-{kind}.jsonl");
            let _ = std::fs::remove_file(&out);
            let ch = Command::new(bin).args([&out, &cfg.seed.to_string(), &cases.to_string(), threads, kind]).spawn();
            match ch {
                Ok(c) => children.push((name.clone(), out, c)),
                Err(e) => rep.inconclusive.push(format!("cannot run {bin}: {e}")),
            }
        }
    }
    // per case key: config -> (digest, err)
    let mut table: BTreeMap<String, BTreeMap<String, (Option<u64>, Option<String>, Value)>> = BTreeMap::new();
    let mut nontrivial_cases = std::collections::BTreeSet::new();
    for (name, out, mut c) in children {
        let st = c.wait();
        if !st.map(|s| s.success()).unwrap_or(false) {
            rep.inconclusive.push(format!("recorder for configuration {name} did not finish successfully"));
        }
        let text = std::fs::read_to_string(&out).unwrap_or_default();
        for l in text.lines() {
            let Ok(v) = serde_json::from_str::<Value>(l) else { continue };
            let key = format!("{} threads={}", v["case"].as_str().unwrap_or("?"), v["threads"]);
            let case_only = v["case"].as_str().unwrap_or("?").to_string();
            if v["nontrivial"].as_bool() == Some(true) || case_only.starts_with("n3/") || case_only.starts_with("n3-addvars/") || case_only.starts_with("n3-sets/") || case_only.starts_with("big/") {
                nontrivial_cases.insert(case_only.clone());
            }
            table.entry(case_only).or_default().insert(format!("{name} threads={}", v["threads"]), (v["digest"].as_u64(), v["err"].as_str().map(|s| s.to_string()), v["history"].clone()));
            let _ = key;
        }
    }
    for (case, per_cfg) in &table {
        rep.evaluations += per_cfg.len() as u64;
        // every run must agree with the model (no err) ...
        for (c, (_, err, hist)) in per_cfg {
            if let Some(e) = err {
                if e.starts_with("timeout") || e.starts_with("crash: Timeout") {
                    rep.inconclusive.push(format!("{case} [{c}]: {e}"));
                } else {
                    rep.viol(format!("C20/{}/{}", c.split(' ').next().unwrap_or("?"), crate::hrun::category(e)), format!("{case} under configuration [{c}]: {e}"), json!({"case": case, "configuration": c, "history": hist}));
                }
            }
        }
        // ... and all configurations / thread counts must produce identical digests
        let digests: std::collections::BTreeSet<u64> = per_cfg.values().filter_map(|x| x.0).collect();
        if digests.len() > 1 {
            let detail: Vec<String> = per_cfg.iter().map(|(c, d)| format!("{c}: {:?}", d.0)).collect();
            rep.viol("C20/digest-mismatch".to_string(), format!("{case}: configurations disagree on results / node counts / orders: {}", detail.join("; ")), json!({"case": case, "digests": detail}));
        }
        if per_cfg.len() >= bins.len() && nontrivial_cases.contains(case) {
            rep.nontrivial += 1;
        }
    }
    rep.class_n("cases", table.len() as u64);
    rep.class_n("configurations", bins.len() as u64);
    rep.sample(json!({"configurations": configs.iter().map(|c| c.1).collect::<Vec<_>>(), "thread_counts": [1, 2, 8], "cases_per_kind": cases, "example_case": table.keys().find(|k| k.starts_with("hist/")).cloned()}));
    conclude(
        cfg,
        &rep,
        Meta {
            level: "exploration",
            rule: "the recorder binary vrun20 is built for every point of {manager-index, manager-pointer} x {apply-cache-direct-mapped on, off} x {multi-threading on, off} (quick: 5 of the 8 points incl. both backends, both cache settings and one single-threaded build; thorough: all 8). Each binary executes, with worker counts 1, 2 and 8, the exhaustive 3-variable suite (256 functions, node counts vs reference canonical form, sampled operator results as handles, structure + reference-count audit, gc) under all 6 orders for BDD/BCDD/ZBDD and the same seeded proptest histories (apply, quantify, substitute, clone/drop, gc, add_vars, set_var_order, ...) with model comparison, pairwise canonicity, structure and reference-count audits after every step, in forked children. Every run must agree with the truth-table model and all runs of a case must produce byte-identical digests (result tables, node counts, variable orders per step). Non-trivial = case executed by all configurations x 3 thread counts that is an n=3 suite or a history whose results reach >= 3 nodes after a gc or reorder. The ZBDD set-family suite of C09 (n3-sets: subset0/subset1/change/union/intsec/diff/make_node on all 256 families under the 6 orders) runs in every configuration and worker count. The add_vars suite (n3-addvars) repeats not, restrict by 27 persistent literal cubes, xor and imp on the SAME 256 handles with 3, 4 and 6 variables (add_vars(1), add_vars(2) in between) against the model (ZBDD handles are re-read as f AND NOT x_new), so that results depending on the set of levels cannot be served from state of the smaller manager in any configuration. The big-diagram case (big/<kind>: OR_i x_i AND x_{i+16} over 32 variables, > 100 000 nodes, its complement and f XOR x31) compares node_count() with an explicit walk over the diagram before and after a collection, so that node stores are exercised beyond their first page / chunk in every configuration.",
            assumptions: vec!["MTBDD exists only on the index backend and is not part of the cross product".into(), "builds share one cargo target directory and are produced sequentially; binaries are copied to target/c20".into()],
            extra: json!({}),
        },
        start,
    )
}
