//! C07 layer 3: harness-owned schedules over instrumented yield points (hooks).
use std::io::Write;

use serde_json::Value;

use crate::engine::Cfg;

pub fn add_jobs<'a>(_cfg: &'a Cfg, _jobs: &mut Vec<Box<dyn FnMut(&mut dyn Write) + 'a>>, _names: &mut Vec<String>) {}

pub fn replay(_cfg: &Cfg, _path: &str, _case: &Value) -> i32 {
    println!("replay: schedule replay not available");
    2
}
