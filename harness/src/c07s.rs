//! C07 layer 3: schedule perturbation at the instrumented yield points.
//!
//! OxiDD (built with `--cfg oxidd_verif`) calls `oxidd_core::verif::yield_point(id)` before a
//! level of the unique table is locked (1), when a node slot is allocated (2) or freed (9), at the
//! phases of a garbage collection (3 before the apply cache is locked, 4 after, 5 before each
//! level, 6 before the cache is unlocked) and before apply-cache lookups (7) and insertions (8).
//! The harness installs a callback that - as a pure function of the schedule seed, the calling
//! thread's index and its call counter - yields, spins or sleeps there. This does not own the
//! schedule (blocking primitives inside OxiDD are not intercepted) but it moves preemptions to
//! the places where invariants are temporarily open, under three policies:
//!   mode 0  every thread is perturbed with probability 1/8 per point;
//!   mode 1  one victim thread is stalled (0.2..2 ms) whenever it reaches one chosen kind of point
//!           (e.g. the collector right after the apply cache was cleared), the others run freely;
//!   mode 2  priorities: thread i spins i * k iterations at every point (threads overtake each
//!           other in a fixed order), with a few seeded priority inversions.
//! Scenarios and oracle are those of layers 2 / 2b.

use std::cell::Cell;
use std::io::Write;
use std::sync::atomic::{AtomicBool, AtomicU64, Ordering::Relaxed};

use proptest::prelude::*;
use serde::{Deserialize, Serialize};
use serde_json::{Value, json};

use crate::c07::{CStat, Scen, conc_strategy, scen_isolated_with, tight_strategy};
use crate::engine::*;
use crate::kinds::*;

static ACTIVE: AtomicBool = AtomicBool::new(false);
static SEED: AtomicU64 = AtomicU64::new(0);
static MODE: AtomicU64 = AtomicU64::new(0);
static NEXT_TAG: AtomicU64 = AtomicU64::new(0);
pub static ACTIONS: AtomicU64 = AtomicU64::new(0);

thread_local! {
    static TAG: Cell<u64> = const { Cell::new(u64::MAX) };
    static COUNT: Cell<u64> = const { Cell::new(0) };
}

#[inline]
fn spin(n: u64) {
    for _ in 0..n {
        std::hint::spin_loop();
    }
}

fn perturb(id: u32) {
    if !ACTIVE.load(Relaxed) {
        return;
    }
    let tag = TAG.with(|t| {
        if t.get() == u64::MAX {
            t.set(NEXT_TAG.fetch_add(1, Relaxed));
        }
        t.get()
    });
    let c = COUNT.with(|c| {
        c.set(c.get() + 1);
        c.get()
    });
    let seed = SEED.load(Relaxed);
    let h = mix(seed ^ (tag << 48) ^ (c << 8) ^ id as u64);
    match MODE.load(Relaxed) {
        0 => {
            if h % 8 == 0 {
                ACTIONS.fetch_add(1, Relaxed);
                match (h >> 8) % 8 {
                    0..=3 => std::thread::yield_now(),
                    4..=6 => spin(50 + (h >> 16) % 3000),
                    _ => std::thread::sleep(std::time::Duration::from_micros(20 + (h >> 16) % 200)),
                }
            }
        }
        1 => {
            // victim thread and point kind are functions of the seed
            let victim = (seed >> 8) % 6;
            let point = 1 + (seed >> 16) % 9;
            if tag % 6 == victim && id as u64 == point && h % 2 == 0 {
                ACTIONS.fetch_add(1, Relaxed);
                std::thread::sleep(std::time::Duration::from_micros(200 + (h >> 16) % 1800));
            }
        }
        _ => {
            let k = 20 + (seed >> 8) % 400;
            let inverted = h % 64 == 0;
            let prio = if inverted { 7 - tag % 8 } else { tag % 8 };
            if prio > 0 {
                ACTIONS.fetch_add(1, Relaxed);
                spin(prio * k);
            }
        }
    }
}

/// switched on by c07::run_scen around the concurrent phase only
pub fn activate(on: bool) {
    ACTIVE.store(on, Relaxed);
}

#[derive(Clone, Debug, Serialize, Deserialize)]
pub struct Sched {
    pub seed: u64,
    pub mode: u8,
}

fn install(s: &Sched) {
    SEED.store(s.seed, Relaxed);
    MODE.store(s.mode as u64, Relaxed);
    NEXT_TAG.store(0, Relaxed);
    ACTIONS.store(0, Relaxed);
    oxidd_core::verif::set_yield_hook(Some(perturb));
}

fn run_one<K: BoolKind>(s: &Scen, sc: &Sched) -> Result<CStat, String> {
    let sc = sc.clone();
    scen_isolated_with::<K>(s, move || install(&sc), || ACTIONS.load(Relaxed))
}

fn campaign<K: BoolKind>(seed: u64, cases: u32, tight: bool, rep: &mut Report) {
    let mut nt = 0u64;
    let mut evals = 0u64;
    let mut actions = 0u64;
    let mut sample = None;
    let mut timeouts = 0u64;
    let sched = (any::<u64>(), 0u8..3).prop_map(|(seed, mode)| Sched { seed, mode });
    let test = |(s, sc): &(Scen, Sched)| match run_one::<K>(s, sc) {
        Err(m) if m.starts_with("harness") => Ok(CStat { threads: usize::MAX - 1, ..Default::default() }),
        Err(m) if m.starts_with("timeout") => Ok(CStat { threads: usize::MAX, ..Default::default() }),
        r => r,
    };
    let mut after = |(s, sc): &(Scen, Sched), r: &Result<CStat, String>| {
        if let Ok(st) = r {
            if st.threads == usize::MAX - 1 {
                return; // store too tight for the set-up of this scenario: skipped
            }
            if st.threads == usize::MAX {
                timeouts += 1;
                return;
            }
            evals += st.results.max(1);
            actions += st.perturbations;
            if st.threads >= 2 && st.results >= 6 && st.perturbations >= 20 {
                nt += 1;
                if sample.is_none() {
                    sample = Some(json!({"kind": K::NAME, "layer": "3", "scen": s, "schedule": sc, "perturbations": st.perturbations}));
                }
            }
        }
    };
    let out = if tight { crate::pt::run2(seed, cases, &(tight_strategy(), sched), |_| {}, &mut after, test) } else { crate::pt::run2(seed, cases, &(conc_strategy(), sched), |_| {}, &mut after, test) };
    let lname = if tight { "3b" } else { "3" };
    rep.evaluations += evals;
    rep.nontrivial += nt;
    rep.class_n(&format!("{}.layer{lname}.scenarios", K::NAME), out.cases);
    rep.class_n(&format!("{}.layer{lname}.perturbation_actions", K::NAME), actions);
    if timeouts > 0 {
        rep.inconclusive.push(format!("{} layer {lname}: watchdog expired for {timeouts} scenario(s)", K::NAME));
    }
    if let Some(s) = sample {
        rep.sample(s);
    }
    if let Some(((s, sc), msg)) = out.failure {
        rep.viol(format!("C07/{}/layer{lname}/{}", K::NAME, crate::hrun::category(&msg)), msg, json!({"kind": K::NAME, "layer": lname, "scen": s, "schedule": sc}));
    }
}

pub fn add_jobs<'a>(cfg: &'a Cfg, jobs: &mut Vec<Box<dyn FnMut(&mut dyn Write) + 'a>>, names: &mut Vec<String>) {
    macro_rules! add_kind {
        ($K:ty, $salt:expr) => {
            for sh in 0..cfg.t(1, 3) {
                for tight in [false, true] {
                    let seed = mix(cfg.seed ^ (0xc07_500 + $salt * 100 + sh as u64 * 2 + tight as u64));
                    let cases = cfg.t(if tight { 200 } else { 400 }, 4000);
                    names.push(format!("layer3{}/{}/{}", if tight { "b" } else { "" }, <$K>::NAME, sh));
                    jobs.push(Box::new(move |w: &mut dyn Write| {
                        let mut rep = Report::default();
                        campaign::<$K>(seed, cases, tight, &mut rep);
                        rep.emit(w);
                    }));
                }
            }
        };
    }
    add_kind!(BddK, 1);
    add_kind!(BcddK, 2);
    add_kind!(ZbddK, 3);
}

pub fn replay(_cfg: &Cfg, path: &str, case: &Value) -> i32 {
    let (Ok(s), Ok(sc)) = (serde_json::from_value::<Scen>(case["scen"].clone()), serde_json::from_value::<Sched>(case["schedule"].clone())) else {
        println!("replay: not a layer-3 case");
        return 2;
    };
    let mut r = Ok(CStat::default());
    // the perturbation is a function of the seed, the OS still has a say: several attempts
    for _ in 0..8 {
        r = match case["kind"].as_str().unwrap_or("bdd") {
            "bdd" => run_one::<BddK>(&s, &sc),
            "bcdd" => run_one::<BcddK>(&s, &sc),
            _ => run_one::<ZbddK>(&s, &sc),
        };
        if r.is_err() {
            break;
        }
    }
    match r {
        Ok(_) => {
            println!("replay: scenario passes (perturbed schedules: best effort, 8 attempts)");
            0
        }
        Err(m) if m.starts_with("timeout") => {
            println!("INCONCLUSIVE: {m}");
            2
        }
        Err(m) => {
            println!("VIOLATION property=C07 replay={path}\n  what: {m}");
            1
        }
    }
}
