//! C03/C05 extras: MTBDD/TDD histories with structure / reference-count audits;
//! baseline + capacity probe after DropAll+gc; background collector.
use std::io::Write;

use oxidd::{BooleanFunction, Function, InnerNode, Manager, ManagerRef};
use oxidd_core::LevelView;
use serde_json::json;

use crate::engine::*;
use crate::hist::Checks;
use crate::kinds::*;
use crate::vhist::vhist_campaign;
use crate::vkinds::*;

pub fn add_jobs_c03<'a>(cfg: &'a Cfg, jobs: &mut Vec<Box<dyn FnMut(&mut dyn Write) + 'a>>, names: &mut Vec<String>) {
    let checks = Checks { canon: false, structure: true, rc: false, node_count: true };
    let nt = |s: &crate::hrun::CaseStats| s.audits_with_dead > 0 && (s.gcs > 0 || s.reorders_effective > 0 || s.add_vars > 0);
    for sh in 0..cfg.t(2, 4) {
        let cases = cfg.t(600, 8000);
        macro_rules! add {
            ($K:ty, $salt:expr) => {
                let seed = mix(cfg.seed ^ (0xc03_f00 + $salt * 100 + sh as u64));
                names.push(format!("vhist/{}/{}", <$K>::NAME, sh));
                jobs.push(Box::new(move |w: &mut dyn Write| {
                    let mut rep = Report::default();
                    vhist_campaign::<$K>("C03", seed, cases, checks, 8, 8, &[16], &mut rep, &nt);
                    rep.emit(w);
                }));
            };
        }
        add!(MtI64K, 1);
        add!(MtF64K, 2);
        add!(TddK, 3);
    }
}

/// After DropAll + gc: node count back to baseline and the full capacity is available
/// again (index backend; capacities < 64Ki allocate slot by slot).
pub fn capacity_probe<K: BoolKind>(seed: u64, rounds: u32, exact: bool, rep: &mut Report)
where
    for<'id> <<K::F as Function>::Manager<'id> as Manager>::InnerNode: oxidd::HasLevel,
{
    let mut s = seed;
    for round in 0..rounds {
        if !exact {
            s = mix(s);
        }
        let n = 4 + (s % 4) as u32;
        let cap = 60 + (s >> 8) as usize % 40; // < 100: no background collector that could make an explicit gc() a no-op
        let ctx = json!({"kind": K::NAME, "n": n, "capacity": cap, "round": round, "seed": s});
        progress(&json!({"sig": format!("C05/{}/capacity-probe/crash", K::NAME), "ctx": ctx}).to_string());
        let order: Vec<u32> = (0..n).collect();
        let mr = crate::build::mk_manager::<K>(n, &order, cap, 16, 1);
        let baseline = K::num_inner_nodes(&mr);
        let expected_baseline = if K::KIND == crate::model::BKind::Zbdd { n as usize } else { 0 };
        rep.evaluations += 1;
        if baseline != expected_baseline {
            rep.viol(format!("C05/{}/baseline", K::NAME), format!("fresh manager with {n} variables holds {baseline} inner nodes, expected {expected_baseline}"), ctx.clone());
            continue;
        }
        // do some work incl. a reorder, then drop everything
        {
            let vs = crate::build::vars::<K>(&mr, n);
            let mut pool = vec![];
            let mut acc = vs[0].clone();
            for i in 0..40usize {
                s = mix(s);
                let v = &vs[(s % n as u64) as usize];
                let r = match s % 5 {
                    0 => acc.and(v),
                    1 => acc.or(v),
                    2 => acc.xor(v),
                    3 => acc.nand(v),
                    _ => acc.ite(v, &vs[i % n as usize]),
                };
                let Ok(r) = r else { break };
                acc = r;
                pool.push(acc.clone());
                if i == 4 && K::KIND != crate::model::BKind::Zbdd {
                    let mut o: Vec<u32> = (0..n).collect();
                    o.reverse();
                    K::set_var_order(&mr, &o, true);
                }
                if i % 8 == 7 {
                    K::gc(&mr);
                }
            }
        }
        K::gc(&mr);
        let after = K::num_inner_nodes(&mr);
        rep.evaluations += 1;
        if after != baseline {
            rep.viol(format!("C05/{}/baseline-after-dropall-gc", K::NAME), format!("after dropping all handles and gc(): {after} inner nodes, initial count was {baseline}"), ctx.clone());
            continue;
        }
        // capacity probe: exactly cap - baseline fresh nodes can be created
        let created = mr.with_manager_shared(|m| {
            let mut edges = vec![];
            let mut t = K::F::t(m);
            while let Some(c) = t.cofactor_false() {
                t = c;
            }
            let f = K::F::f(m);
            let mut prev: Vec<_> = vec![m.clone_edge(t.as_edge(m)), m.clone_edge(f.as_edge(m))];
            let mut count = 0usize;
            'outer: for level in (0..n).rev() {
                let mut this = vec![];
                for i in 0..prev.len() {
                    for j in 0..prev.len() {
                        if i == j || count > cap + 10 {
                            continue;
                        }
                        // BCDD: then-edge must be untagged; ZBDD: hi != empty. Use distinct
                        // children from the previous layer and skip forbidden shapes.
                        use oxidd::Edge;
                        use oxidd_core::Countable;
                        if prev[i].tag().as_usize() != 0 {
                            continue;
                        }
                        if K::KIND == crate::model::BKind::Zbdd && prev[i] == *f.as_edge(m) {
                            continue;
                        }
                        let node = <<K::F as Function>::Manager<'_> as Manager>::InnerNode::new(level, [m.clone_edge(&prev[i]), m.clone_edge(&prev[j])]);
                        match m.level(level).get_or_insert(node) {
                            Ok(e) => {
                                if !edges.iter().any(|x| x == &e) && !prev.iter().any(|x| x == &e) {
                                    count += 1;
                                    this.push(m.clone_edge(&e));
                                }
                                edges.push(e);
                            }
                            Err(_) => break 'outer,
                        }
                    }
                }
                for e in this {
                    prev.push(e);
                }
                if prev.len() > 40 {
                    let keep: Vec<_> = prev.drain(..).take(40).collect();
                    prev = keep;
                }
            }
            // count distinct new nodes
            let mut ids: Vec<usize> = edges.iter().map(|e| { use oxidd::Edge; e.node_id() }).collect();
            ids.sort();
            ids.dedup();
            let res = ids.len();
            for e in edges {
                m.drop_edge(e);
            }
            for e in prev {
                m.drop_edge(e);
            }
            res
        });
        rep.evaluations += 1;
        let total_now = K::num_inner_nodes(&mr);
        // nodes of the ZBDD tautology chain may coincide with probe nodes
        if total_now != cap && created + baseline < cap {
            rep.viol(format!("C05/{}/capacity-lost", K::NAME), format!("after DropAll+gc only {} inner nodes fit into a manager with capacity {cap} (probe created {created} distinct nodes, baseline {baseline})", total_now), ctx.clone());
        } else {
            rep.nontrivial += 1;
        }
        if rep.samples.len() < 1 {
            rep.sample(json!({"suite": "capacity probe", "ctx": ctx, "created": created, "inner_nodes_at_oom": total_now}));
        }
    }
    rep.class_n(&format!("{}.capacity_probes", K::NAME), rounds as u64);
}

/// Fill the store with live nodes (children from the layers below, every (level, hi, lo) triple
/// used once) until the allocation fails; returns the number of inner nodes stored at that point.
fn fill_to_oom<K: BoolKind>(mr: &MRef<K>, n: u32, limit: usize) -> usize
where
    for<'id> <<K::F as Function>::Manager<'id> as Manager>::InnerNode: oxidd::HasLevel,
{
    mr.with_manager_shared(|m| {
        use oxidd::Edge;
        use oxidd_core::Countable;
        let mut t = K::F::t(m);
        while let Some(c) = t.cofactor_false() {
            t = c;
        }
        let f = K::F::f(m);
        let mut prev: Vec<_> = vec![m.clone_edge(t.as_edge(m)), m.clone_edge(f.as_edge(m))];
        let mut edges = vec![];
        'outer: for level in (0..n).rev() {
            let mut this = vec![];
            for i in 0..prev.len() {
                if prev[i].tag().as_usize() != 0 || (K::KIND == crate::model::BKind::Zbdd && prev[i] == *f.as_edge(m)) {
                    continue;
                }
                for j in 0..prev.len() {
                    if i == j {
                        continue;
                    }
                    if edges.len() > limit {
                        break 'outer;
                    }
                    let node = <<K::F as Function>::Manager<'_> as Manager>::InnerNode::new(level, [m.clone_edge(&prev[i]), m.clone_edge(&prev[j])]);
                    match m.level(level).get_or_insert(node) {
                        Ok(e) => {
                            if this.len() < 400 {
                                this.push(m.clone_edge(&e));
                            }
                            edges.push(e);
                        }
                        Err(_) => break 'outer,
                    }
                }
            }
            prev.extend(this);
            if prev.len() > 400 {
                for e in prev.drain(400..) {
                    m.drop_edge(e);
                }
            }
        }
        // everything created is still referenced: nothing a collector could have removed
        let stored = m.num_inner_nodes();
        for e in edges {
            m.drop_edge(e);
        }
        for e in prev {
            m.drop_edge(e);
        }
        stored
    })
}

/// Stores of 64 Ki slots and more hand out slots in per-thread chunks (smaller ones slot by
/// slot). Scenario: in ONE `with_manager_shared` session nodes are created from a freshly
/// pre-allocated chunk, all of them die, `gc()` runs and the session ends with a partly used
/// chunk and a non-empty thread-local free list. Afterwards exactly as many nodes must fit into
/// the manager as into a fresh manager of the same capacity.
pub fn chunk_probe<K: BoolKind>(seed: u64, rounds: u32, exact: bool, rep: &mut Report)
where
    for<'id> <<K::F as Function>::Manager<'id> as Manager>::InnerNode: oxidd::HasLevel,
{
    let mut s = seed;
    for round in 0..rounds {
        if !exact {
            s = mix(s);
        }
        let n = 12u32;
        let cap = (1usize << 16) + (s >> 8) as usize % 40_000;
        let sessions = 1 + (s >> 40) % 3;
        let ctx = json!({"kind": K::NAME, "n": n, "capacity": cap, "round": round, "seed": s, "chunked": true});
        progress(&json!({"sig": format!("C05/{}/chunk-probe/crash", K::NAME), "ctx": ctx}).to_string());
        let order: Vec<u32> = (0..n).collect();
        let fresh = {
            let mr = crate::build::mk_manager::<K>(n, &order, cap, 16, 1);
            fill_to_oom::<K>(&mr, n, cap + 10)
        };
        let mr = crate::build::mk_manager::<K>(n, &order, cap, 16, 1);
        let baseline = K::num_inner_nodes(&mr);
        let mut removed_total = 0usize;
        let mut r = s;
        for _ in 0..sessions {
            let steps = 200 + (mix(r) % 1500) as usize;
            removed_total += mr.with_manager_shared(|m| {
                let vs: Vec<K::F> = (0..n).map(|v| K::F::var(m, v).expect("oom var")).collect();
                let mut acc = m.clone_edge(vs[0].as_edge(m));
                let mut dead = vec![];
                for _ in 0..steps {
                    r = mix(r);
                    let v = vs[(r % n as u64) as usize].as_edge(m);
                    let res = match (r >> 8) % 3 {
                        0 => K::F::and_edge(m, &acc, v),
                        1 => K::F::or_edge(m, &acc, v),
                        _ => K::F::xor_edge(m, &acc, v),
                    };
                    let Ok(res) = res else { break };
                    dead.push(std::mem::replace(&mut acc, res));
                }
                m.drop_edge(acc);
                for e in dead {
                    m.drop_edge(e);
                }
                drop(vs);
                m.gc()
            });
        }
        K::gc(&mr);
        rep.evaluations += 1;
        let after = K::num_inner_nodes(&mr);
        if after != baseline {
            rep.viol(format!("C05/{}/baseline-after-dropall-gc", K::NAME), format!("chunked store: after dropping all handles and gc(): {after} inner nodes, initial count was {baseline}"), ctx.clone());
            continue;
        }
        let again = fill_to_oom::<K>(&mr, n, cap + 10);
        rep.evaluations += 1;
        if again != fresh {
            rep.viol(format!("C05/{}/capacity-lost", K::NAME), format!("chunked store of capacity {cap}: after {sessions} session(s) of create/drop/gc (collections removed {removed_total} nodes) only {again} inner nodes fit, a fresh manager takes {fresh}"), ctx.clone());
        } else if removed_total > 0 {
            rep.nontrivial += 1;
        }
        if rep.samples.len() < 1 {
            rep.sample(json!({"suite": "chunk probe", "ctx": ctx, "removed_by_gc": removed_total, "inner_nodes_at_oom": again, "fresh_manager": fresh}));
        }
    }
    rep.class_n(&format!("{}.chunk_probes", K::NAME), rounds as u64);
}

/// Automatic background collections: a manager with capacity >= 100 starts its collector at
/// 95 % fill. Random operations keep the store around the high-water mark while handles are
/// alive; every result is compared with the model, and after the run (collector idle, exclusive
/// lock) the structure / reference-count audit must pass.
pub fn auto_gc<K: BoolKind>(seed: u64, rounds: u32, exact: bool, rep: &mut Report) {
    use crate::model::*;
    let mut s = seed;
    let mut observed = 0u64;
    for round in 0..rounds {
        if !exact {
            s = mix(s);
        }
        let n = 6 + (s % 3) as u32;
        let cap = 300 + (s >> 16) as usize % 500;
        let ctx = json!({"kind": K::NAME, "n": n, "capacity": cap, "round": round, "seed": s});
        progress(&json!({"sig": format!("C05/{}/auto-gc/crash", K::NAME), "ctx": ctx}).to_string());
        let order: Vec<u32> = (0..n).collect();
        let mr = crate::build::mk_manager::<K>(n, &order, cap, 64, if round % 2 == 0 { 1 } else { 3 });
        let vs = crate::build::vars::<K>(&mr, n);
        let mut pool: Vec<(K::F, TT)> = vs.iter().enumerate().map(|(v, f)| (f.clone(), TT::var(n, v as u32))).collect();
        let gc0 = K::gc_count(&mr);
        let mut ooms = 0;
        let mut bad: Option<String> = None;
        for i in 0..600usize {
            s = mix(s);
            let a = (s % pool.len() as u64) as usize;
            let b = ((s >> 20) % pool.len() as u64) as usize;
            let op = BINOPS[((s >> 40) % 8) as usize];
            let r = match op {
                BinOp::And => pool[a].0.and(&pool[b].0),
                BinOp::Or => pool[a].0.or(&pool[b].0),
                BinOp::Xor => pool[a].0.xor(&pool[b].0),
                BinOp::Equiv => pool[a].0.equiv(&pool[b].0),
                BinOp::Nand => pool[a].0.nand(&pool[b].0),
                BinOp::Nor => pool[a].0.nor(&pool[b].0),
                BinOp::Imp => pool[a].0.imp(&pool[b].0),
                BinOp::ImpStrict => pool[a].0.imp_strict(&pool[b].0),
            };
            match r {
                Ok(f) => {
                    let t = op.tt(&pool[a].1, &pool[b].1);
                    rep.evaluations += 1;
                    let got = K::table(&f, n);
                    if got != t {
                        bad = Some(format!("result-table: op {i} {op:?}: expected {t:?}, got {got:?} (background collector active: {})", K::gc_count(&mr) > gc0));
                        break;
                    }
                    if pool.len() >= 14 {
                        let k = n as usize + ((s >> 50) as usize % (pool.len() - n as usize));
                        pool.remove(k); // drop: produces garbage for the collector
                    }
                    pool.push((f, t));
                }
                Err(_) => {
                    ooms += 1;
                    if pool.len() > n as usize + 2 {
                        pool.truncate(n as usize + 2);
                    }
                }
            }
        }
        let auto = K::gc_count(&mr) - gc0;
        if auto > 0 {
            observed += 1;
        }
        if bad.is_none() {
            // every handle still denotes its function, audits pass (exclusive lock: collector idle)
            for (f, t) in &pool {
                if K::table(f, n) != *t {
                    bad = Some(format!("preserve: a handle changed its function after {auto} automatic collections"));
                    break;
                }
            }
        }
        if bad.is_none() {
            let handles: Vec<&K::F> = pool.iter().map(|p| &p.0).chain(vs.iter()).collect();
            if let Err(e) = K::audit(&mr, &handles, true) {
                bad = Some(format!("audit-after-auto-gc: {e} ({auto} automatic collections)"));
            }
        }
        if let Some(m) = bad {
            rep.viol(format!("C05/{}/auto-gc/{}", K::NAME, crate::hrun::category(&m)), m, ctx.clone());
        } else if auto > 0 {
            rep.nontrivial += 1;
        }
        rep.class_n(&format!("{}.auto_gc.collections", K::NAME), auto);
        rep.class_n(&format!("{}.auto_gc.oom_results", K::NAME), ooms);
        if rep.samples.is_empty() {
            rep.sample(json!({"suite": "automatic collections", "ctx": ctx, "automatic_collections": auto}));
        }
    }
    rep.class_n(&format!("{}.auto_gc.rounds", K::NAME), rounds as u64);
    rep.class_n(&format!("{}.auto_gc.rounds_with_background_collection", K::NAME), observed);
}


/// MTBDD: unused terminals are freed by gc() and their capacity becomes available again.
/// Random create/drop/gc histories over a terminal store of capacity T; the model is the set of
/// distinct values reachable from the held handles.
pub fn terminal_probe<K: VKind>(seed: u64, rounds: u32, exact: bool, mkval: &dyn Fn(u64) -> K::V, rep: &mut Report)
where
    K::V: Eq + std::hash::Hash,
{
    use std::collections::HashSet as BTreeSet;
    let mut s = seed;
    for round in 0..rounds {
        if !exact {
            s = mix(s);
        }
        let tcap = 3 + (s % 30) as usize;
        let ctx = json!({"kind": K::NAME, "terminal_capacity": tcap, "round": round, "seed": s});
        progress(&json!({"sig": format!("C05/{}/terminal-probe/crash", K::NAME), "ctx": ctx}).to_string());
        let mr = K::new_manager(90, tcap, 16, 1);
        K::add_vars(&mr, 2);
        let x0 = K::var(&mr, 0);
        let mut held: Vec<(K::F, BTreeSet<K::V>)> = vec![];
        let mut next = 0u64;
        let mut bad: Option<String> = None;
        let mut reused = false;
        let mut created_total = 0usize;
        let live = |held: &Vec<(K::F, BTreeSet<K::V>)>, extra: &[K::V]| -> usize {
            let mut all: BTreeSet<K::V> = extra.iter().cloned().collect();
            for (_, vs) in held {
                all.extend(vs.iter().cloned());
            }
            all.len()
        };
        // values of the variable function x0 stay alive through `x0`
        let var_vals: Vec<K::V> = if x0.is_ok() { vec![K::var_value(0), K::var_value(1)] } else { vec![] };
        'steps: for step in 0..200u32 {
            s = mix(s);
            match s % 8 {
                0..=4 => {
                    next += 1;
                    let v = mkval(next);
                    let r = K::constant(&mr, &v);
                    rep.evaluations += 1;
                    match r {
                        Ok(f) => {
                            created_total += 1;
                            held.push((f, [v].into_iter().collect()));
                        }
                        Err(_) => {
                            // the store may be full of dead terminals; after gc() the creation
                            // succeeds iff fewer than T terminals are alive
                            K::gc(&mr);
                            let alive = live(&held, &var_vals);
                            let nt = K::num_terminals(&mr);
                            if nt != alive {
                                bad = Some(format!("terminal-count: step {step}: {nt} terminals stored after gc(), {alive} distinct values are reachable from live handles"));
                                break 'steps;
                            }
                            match K::constant(&mr, &v) {
                                Ok(f) => {
                                    if alive >= tcap {
                                        bad = Some(format!("terminal-capacity-exceeded: step {step}: {alive} live terminals, capacity {tcap}, creation succeeded"));
                                        break 'steps;
                                    }
                                    reused |= created_total >= tcap;
                                    created_total += 1;
                                    held.push((f, [v].into_iter().collect()));
                                }
                                Err(_) => {
                                    if alive < tcap {
                                        bad = Some(format!("terminal-capacity-lost: step {step}: only {alive} terminals alive after gc() but a new constant does not fit into capacity {tcap} ({created_total} terminals created so far)"));
                                        break 'steps;
                                    }
                                }
                            }
                        }
                    }
                }
                5 | 6 => {
                    if !held.is_empty() {
                        let k = (s >> 16) as usize % held.len();
                        held.swap_remove(k);
                    }
                }
                _ => {
                    K::gc(&mr);
                    let alive = live(&held, &var_vals);
                    let nt = K::num_terminals(&mr);
                    rep.evaluations += 1;
                    if nt != alive {
                        bad = Some(format!("terminal-count: step {step}: {nt} terminals stored after gc(), {alive} distinct values are reachable from live handles"));
                        break 'steps;
                    }
                }
            }
        }
        if bad.is_none() {
            held.clear();
            drop(x0);
            K::gc(&mr);
            let nt = K::num_terminals(&mr);
            let ni = K::num_inner_nodes(&mr);
            rep.evaluations += 1;
            if nt != 0 || ni != 0 {
                bad = Some(format!("baseline-after-dropall-gc: {nt} terminals / {ni} inner nodes remain after dropping all handles and gc()"));
            } else {
                let mut fresh = vec![];
                for i in 0..tcap as u64 {
                    match K::constant(&mr, &mkval(1_000_000 + i)) {
                        Ok(f) => fresh.push(f),
                        Err(_) => {
                            bad = Some(format!("terminal-capacity-lost: empty manager (all handles dropped, gc done) accepts only {} of {tcap} terminals ({created_total} terminals were created before)", fresh.len()));
                            break;
                        }
                    }
                }
            }
        }
        match bad {
            Some(m) => rep.viol(format!("C05/{}/terminal-probe/{}", K::NAME, crate::hrun::category(&m)), m, ctx.clone()),
            None => {
                if created_total > tcap {
                    rep.nontrivial += 1;
                }
                if reused {
                    rep.class(&format!("{}.terminal_probe.slot_reuse_after_oom", K::NAME));
                }
            }
        }
        if rep.samples.is_empty() {
            rep.sample(json!({"suite": "terminal capacity probe", "ctx": ctx, "terminals_created": created_total}));
        }
    }
    rep.class_n(&format!("{}.terminal_probes", K::NAME), rounds as u64);
}

pub fn add_jobs<'a>(cfg: &'a Cfg, jobs: &mut Vec<Box<dyn FnMut(&mut dyn Write) + 'a>>, names: &mut Vec<String>) {
    macro_rules! autogc {
        ($K:ty, $salt:expr) => {
            let seed = mix(cfg.seed ^ (0xc05_d00 + $salt));
            let rounds = cfg.t(40, 400);
            names.push(format!("auto-gc/{}", <$K>::NAME));
            jobs.push(Box::new(move |w: &mut dyn Write| {
                let mut rep = Report::default();
                auto_gc::<$K>(seed, rounds, false, &mut rep);
                rep.emit(w);
            }));
        };
    }
    autogc!(BddK, 1);
    autogc!(BcddK, 2);
    autogc!(ZbddK, 3);
    let checks = Checks { canon: false, structure: true, rc: true, node_count: false };
    let nt = |s: &crate::hrun::CaseStats| s.gc_removed > 0 && s.gcs > 0;
    for sh in 0..cfg.t(2, 4) {
        let cases = cfg.t(600, 8000);
        macro_rules! add {
            ($K:ty, $salt:expr) => {
                let seed = mix(cfg.seed ^ (0xc05_f00 + $salt * 100 + sh as u64));
                names.push(format!("vhist/{}/{}", <$K>::NAME, sh));
                jobs.push(Box::new(move |w: &mut dyn Write| {
                    let mut rep = Report::default();
                    vhist_campaign::<$K>("C05", seed, cases, checks, 4, 14, &[16], &mut rep, &nt);
                    rep.emit(w);
                }));
            };
        }
        add!(MtI64K, 1);
        add!(MtF64K, 2);
        add!(TddK, 3);
    }
    macro_rules! probe {
        ($K:ty, $salt:expr) => {
            let seed = mix(cfg.seed ^ (0xc05_e00 + $salt));
            let rounds = cfg.t(60, 600);
            names.push(format!("capacity-probe/{}", <$K>::NAME));
            jobs.push(Box::new(move |w: &mut dyn Write| {
                let mut rep = Report::default();
                capacity_probe::<$K>(seed, rounds, false, &mut rep);
                rep.emit(w);
            }));
        };
    }
    {
        let seed = mix(cfg.seed ^ 0xc05_a01);
        let rounds = cfg.t(150, 3000);
        names.push("terminal-probe/mtbdd-i64".into());
        jobs.push(Box::new(move |w: &mut dyn Write| {
            let mut rep = Report::default();
            terminal_probe::<MtI64K>(seed, rounds, false, &mk_ri, &mut rep);
            rep.emit(w);
        }));
        let seed = mix(cfg.seed ^ 0xc05_a02);
        names.push("terminal-probe/mtbdd-f64".into());
        jobs.push(Box::new(move |w: &mut dyn Write| {
            let mut rep = Report::default();
            terminal_probe::<MtF64K>(seed, rounds, false, &mk_rf, &mut rep);
            rep.emit(w);
        }));
    }
    probe!(BddK, 1);
    probe!(BcddK, 2);
    probe!(ZbddK, 3);
    macro_rules! chunk {
        ($K:ty, $salt:expr) => {
            let seed = mix(cfg.seed ^ (0xc05_c00 + $salt));
            let rounds = cfg.t(8, 80);
            names.push(format!("chunk-probe/{}", <$K>::NAME));
            jobs.push(Box::new(move |w: &mut dyn Write| {
                let mut rep = Report::default();
                chunk_probe::<$K>(seed, rounds, false, &mut rep);
                rep.emit(w);
            }));
        };
    }
    chunk!(BddK, 1);
    chunk!(BcddK, 2);
    chunk!(ZbddK, 3);
}

pub fn mk_ri(i: u64) -> crate::vmodel::RI {
    crate::vmodel::RI::Num(i as i64 * 7 - 3000)
}
pub fn mk_rf(i: u64) -> crate::vmodel::RF {
    crate::vmodel::RF((i as f64 * 0.5 + 2.25).to_bits())
}

/// Replay of one round of a scenario of this module. The scenario is recognised by the recorded
/// context: `terminal_capacity` (terminal probe), `capacity` < 100 (capacity probe), else
/// the automatic-collection scenario.
pub fn replay_scenario(_sig: &str, case: &serde_json::Value) -> Option<Result<(), String>> {
    let seed = case["seed"].as_u64()?;
    let kind = case["kind"].as_str()?.to_string();
    let scen = if case.get("terminal_capacity").is_some() {
        "terminal-probe"
    } else if case.get("chunked").is_some() {
        "chunk-probe"
    } else if case["capacity"].as_u64()? < 100 {
        "capacity-probe"
    } else {
        "auto-gc"
    };
    // the automatic collector is a free-running thread: several attempts
    let attempts = if scen == "auto-gc" { 8 } else { 1 };
    let mut result = Ok(());
    for _ in 0..attempts {
    let out = isolated(300, |w| {
        let mut rep = Report::default();
        match (scen, kind.as_str()) {
            ("capacity-probe", "bdd") => capacity_probe::<BddK>(seed, 1, true, &mut rep),
            ("capacity-probe", "bcdd") => capacity_probe::<BcddK>(seed, 1, true, &mut rep),
            ("capacity-probe", "zbdd") => capacity_probe::<ZbddK>(seed, 1, true, &mut rep),
            ("chunk-probe", "bdd") => chunk_probe::<BddK>(seed, 1, true, &mut rep),
            ("chunk-probe", "bcdd") => chunk_probe::<BcddK>(seed, 1, true, &mut rep),
            ("chunk-probe", "zbdd") => chunk_probe::<ZbddK>(seed, 1, true, &mut rep),
            ("auto-gc", "bdd") => auto_gc::<BddK>(seed, 1, true, &mut rep),
            ("auto-gc", "bcdd") => auto_gc::<BcddK>(seed, 1, true, &mut rep),
            ("auto-gc", "zbdd") => auto_gc::<ZbddK>(seed, 1, true, &mut rep),
            ("terminal-probe", "mtbdd-i64") => terminal_probe::<MtI64K>(seed, 1, true, &mk_ri, &mut rep),
            ("terminal-probe", "mtbdd-f64") => terminal_probe::<MtF64K>(seed, 1, true, &mk_rf, &mut rep),
            _ => rep.inconclusive.push("replay: unknown scenario".into()),
        }
        rep.emit(w);
    });
    let mut total = Report::default();
    merge_jobs(&mut total, vec![out], &[format!("replay/{scen}/{kind}")]);
    if let Some(v) = total.viols.first() {
        result = Err(format!("{}: {}", v.sig, v.what));
        break;
    }
    }
    Some(result)
}
