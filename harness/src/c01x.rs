//! C01 (c): MTBDD / TDD value-table canonicity.
use std::io::Write;

use crate::engine::*;
use crate::hist::Checks;
use crate::vhist::vhist_campaign;
use crate::vkinds::*;

pub fn add_jobs<'a>(cfg: &'a Cfg, jobs: &mut Vec<Box<dyn FnMut(&mut dyn Write) + 'a>>, names: &mut Vec<String>) {
    let checks = Checks { canon: true, structure: false, rc: false, node_count: true };
    let nt = |s: &crate::hrun::CaseStats| s.equal_pairs_after_event > 0 || s.rebuilds_after_event > 0 || s.repeats_after_event > 0;
    for sh in 0..cfg.t(2, 5) {
        let cases = cfg.t(700, 10000);
        macro_rules! add {
            ($K:ty, $salt:expr) => {
                let seed = mix(cfg.seed ^ (0xc01_f00 + $salt * 100 + sh as u64));
                names.push(format!("vhist/{}/{}", <$K>::NAME, sh));
                jobs.push(Box::new(move |w: &mut dyn Write| {
                    let mut rep = Report::default();
                    vhist_campaign::<$K>("C01", seed, cases, checks, 6, 6, &[16], &mut rep, &nt);
                    rep.emit(w);
                }));
            };
        }
        add!(MtI64K, 1);
        add!(MtF64K, 2);
        add!(TddK, 3);
    }
}
