//! Adapters over the concrete OxiDD function types + generic introspection
//! (independent interpreter, structural audit, reference-count audit).

use std::collections::{HashMap, HashSet};

use oxidd::{BooleanFunction, Edge, Function, HasLevel, InnerNode, LevelNo, Manager, ManagerRef, Node, VarNo};
use oxidd_core::{Countable, LevelView};

use crate::model::{BKind, TT, ref_node_count};

pub type MRef<K> = <<K as BoolKind>::F as Function>::ManagerRef;

/// Semantics of a diagram kind, as needed by the independent interpreter
#[derive(Clone, Copy, PartialEq, Eq, Debug)]
pub enum Sem {
    Bdd,
    Bcdd,
    Zbdd,
}

/// Independent node-by-node interpreter (does not use `eval`)
pub fn interp_bool<M: Manager>(
    m: &M,
    root: &M::Edge,
    assign: usize,
    sem: Sem,
    term: &impl Fn(&M::Terminal) -> bool,
) -> bool
where
    M::InnerNode: HasLevel,
{
    let nlev = m.num_levels();
    let mut parity = false;
    let mut expect_level: LevelNo = 0; // ZBDD: levels in expect_level..node_level are skipped
    // Walk with borrowed edges: we re-borrow from the node each step
    let mut cur = root.borrowed();
    let mut steps = 0u32;
    loop {
        steps += 1;
        assert!(steps <= nlev + 2, "interpreter: path longer than the number of levels (cycle or unordered diagram)");
        if sem == Sem::Bcdd && cur.tag().as_usize() != 0 {
            parity = !parity;
        }
        match m.get_node(&*cur) {
            Node::Inner(node) => {
                let l = node.level();
                assert!(l < nlev, "interpreter: node level {l} out of range");
                assert!(l >= expect_level, "interpreter: level {l} not below parent (expected >= {expect_level})");
                if sem == Sem::Zbdd {
                    for sl in expect_level..l {
                        if (assign >> m.level_to_var(sl)) & 1 == 1 {
                            return false;
                        }
                    }
                }
                let v = m.level_to_var(l);
                let bit = (assign >> v) & 1 == 1;
                let next = node.child(if bit { 0 } else { 1 });
                expect_level = l + 1;
                // SAFETY of lifetimes: `next` borrows from `node` which lives as long as `m`
                cur = unsafe { std::mem::transmute(next) };
            }
            Node::Terminal(t) => {
                use std::borrow::Borrow;
                let tv = term(t.borrow());
                if sem == Sem::Zbdd {
                    for sl in expect_level..nlev {
                        if (assign >> m.level_to_var(sl)) & 1 == 1 {
                            return false;
                        }
                    }
                }
                return tv ^ parity;
            }
        }
    }
}

#[derive(Default, Debug, Clone)]
pub struct AuditInfo {
    pub inner_nodes: usize,
    pub nonempty_levels: usize,
    pub dead_nodes: usize,
    /// nodes not reachable from any handle or manager-internal reference
    pub unreachable: usize,
    pub order: Vec<u32>,
}

/// Audit A (structure) and Audit B (reference counts). `roots` are the edges of
/// all live external handles (with multiplicity); `internal` edges are
/// references held by manager data (ZBDD tautology chain is discovered by the
/// caller). Must run with no concurrent operation (exclusive lock).
pub fn audit<M: Manager>(
    m: &M,
    roots: &[&M::Edge],
    sem: Sem,
    arity: usize,
    term_is_zero: &impl Fn(&M::Terminal) -> bool,
    check_rc: bool,
    internal_refs: &HashMap<usize, usize>,
) -> Result<AuditInfo, String>
where
    M::InnerNode: HasLevel,
{
    use std::borrow::Borrow;
    let nlev = m.num_levels();
    let nvars = m.num_vars();
    if nlev != nvars {
        return Err(format!("num_levels {nlev} != num_vars {nvars}"));
    }
    let mut order = vec![];
    let mut seen_var = vec![false; nvars as usize];
    for l in 0..nlev {
        let v = m.level_to_var(l);
        if v >= nvars {
            return Err(format!("level_to_var({l}) = {v} out of range"));
        }
        if seen_var[v as usize] {
            return Err(format!("level_to_var not injective: var {v} twice"));
        }
        seen_var[v as usize] = true;
        if m.var_to_level(v) != l {
            return Err(format!("var_to_level(level_to_var({l})={v}) = {}", m.var_to_level(v)));
        }
        order.push(v);
    }
    for v in 0..nvars {
        let l = m.var_to_level(v);
        if l >= nlev || m.level_to_var(l) != v {
            return Err(format!("level_to_var(var_to_level({v})={l}) mismatch"));
        }
    }

    // expected reference counts
    let mut expected: HashMap<usize, usize> = HashMap::new();
    for r in roots {
        if let Node::Inner(_) = m.get_node(r) {
            *expected.entry(r.node_id()).or_insert(0) += 1;
        }
    }
    for (id, c) in internal_refs {
        *expected.entry(*id).or_insert(0) += c;
    }
    let mut stored: HashMap<usize, usize> = HashMap::new(); // id -> actual rc
    let mut children_of: HashMap<usize, Vec<usize>> = HashMap::new();
    let mut total = 0usize;
    let mut nonempty = 0usize;
    let mut info = AuditInfo::default();
    let mut idx = 0;
    for level in m.levels() {
        let lno = level.level_no();
        if lno != idx {
            return Err(format!("levels() yields level_no {lno} at position {idx}"));
        }
        idx += 1;
        let mut count = 0usize;
        let mut sigs: HashSet<Vec<(usize, usize)>> = HashSet::new();
        for e in level.iter() {
            count += 1;
            if e.tag().as_usize() != 0 {
                return Err(format!("level {lno}: unique-table edge is tagged"));
            }
            let Node::Inner(node) = m.get_node(e) else {
                return Err(format!("level {lno}: unique-table edge refers to a terminal"));
            };
            if node.level() != lno {
                return Err(format!("node {} listed in level {lno} reports level {}", e.node_id(), node.level()));
            }
            let mut sig = vec![];
            let mut n_children = 0;
            for c in node.children() {
                n_children += 1;
                sig.push((c.node_id(), c.tag().as_usize()));
                match m.get_node(&*c) {
                    Node::Inner(cn) => {
                        if cn.level() <= lno {
                            return Err(format!("node {} at level {lno} has child {} at level {}", e.node_id(), c.node_id(), cn.level()));
                        }
                        *expected.entry(c.node_id()).or_insert(0) += 1;
                        children_of.entry(e.node_id()).or_default().push(c.node_id());
                    }
                    Node::Terminal(_) => {}
                }
            }
            if n_children != arity {
                return Err(format!("node arity {n_children} != {arity}"));
            }
            // reduction rules
            match sem {
                Sem::Bdd => {
                    if sig.iter().all(|c| *c == sig[0]) {
                        return Err(format!("node {} at level {lno} has all children equal (redundant test)", e.node_id()));
                    }
                }
                Sem::Bcdd => {
                    if sig[0] == sig[1] {
                        return Err(format!("BCDD node {} at level {lno} has equal children", e.node_id()));
                    }
                    if sig[0].1 != 0 {
                        return Err(format!("BCDD node {} at level {lno} has a complemented then-edge", e.node_id()));
                    }
                }
                Sem::Zbdd => {
                    let hi = node.child(0);
                    if let Node::Terminal(t) = m.get_node(&*hi) {
                        if term_is_zero(t.borrow()) {
                            return Err(format!("ZBDD node {} at level {lno} has hi = empty", e.node_id()));
                        }
                    }
                }
            }
            if !sigs.insert(sig) {
                return Err(format!("level {lno}: two nodes with identical children (duplicate of node {})", e.node_id()));
            }
            if stored.insert(e.node_id(), node.ref_count()).is_some() {
                return Err(format!("node {} is listed twice in the unique table", e.node_id()));
            }
        }
        if count != level.len() {
            return Err(format!("level {lno}: len() = {} but iterated {count}", level.len()));
        }
        if count > 0 {
            nonempty += 1;
        }
        total += count;
    }
    if total != m.num_inner_nodes() {
        return Err(format!("sum of level sizes {total} != num_inner_nodes {}", m.num_inner_nodes()));
    }
    // every referenced node must be stored
    for (id, _) in &expected {
        if !stored.contains_key(id) {
            return Err(format!("node {id} is referenced (by a handle or a parent) but not stored in any level"));
        }
    }
    let mut dead = 0;
    for (id, rc) in &stored {
        let exp = expected.get(id).copied().unwrap_or(0);
        if exp == 0 {
            dead += 1;
        }
        if check_rc && *rc != exp {
            return Err(format!("node {id}: ref_count() = {rc}, expected {exp} (handles + parent edges + manager-internal)"));
        }
    }
    // reachability from handles and internal references
    let mut reach: HashSet<usize> = HashSet::new();
    let mut stack: Vec<usize> = vec![];
    for r in roots {
        if let Node::Inner(_) = m.get_node(r) {
            stack.push(r.node_id());
        }
    }
    stack.extend(internal_refs.keys().copied());
    while let Some(id) = stack.pop() {
        if reach.insert(id) {
            if let Some(cs) = children_of.get(&id) {
                stack.extend(cs.iter().copied());
            }
        }
    }
    info.unreachable = stored.keys().filter(|id| !reach.contains(id)).count();
    info.inner_nodes = total;
    info.nonempty_levels = nonempty;
    info.dead_nodes = dead;
    info.order = order;
    Ok(info)
}

/// Nodes (ids with multiplicity) referenced by the ZBDD tautology chain: the
/// manager data holds one reference to the tautology node of every level.
/// We recompute which nodes these are *structurally*: bottom-up, the node at
/// level l with hi = lo = chain(l+1).
pub fn zbdd_taut_chain<M: Manager>(m: &M, term_is_base: &impl Fn(&M::Terminal) -> bool) -> HashMap<usize, usize>
where
    M::InnerNode: HasLevel,
{
    use std::borrow::Borrow;
    let mut res = HashMap::new();
    // id of the current chain head; None = Base terminal
    let mut head: Option<usize> = None;
    let levels: Vec<_> = m.levels().collect();
    for level in levels.into_iter().rev() {
        let mut found = None;
        for e in level.iter() {
            let node = m.get_node(e).unwrap_inner();
            let hi = node.child(0);
            let lo = node.child(1);
            let matches = |c: &M::Edge| match (m.get_node(c), head) {
                (Node::Terminal(t), None) => term_is_base(t.borrow()),
                (Node::Inner(_), Some(h)) => c.node_id() == h,
                _ => false,
            };
            if matches(&*hi) && matches(&*lo) {
                found = Some(e.node_id());
                break;
            }
        }
        match found {
            Some(id) => {
                *res.entry(id).or_insert(0) += 1;
                head = Some(id);
            }
            None => break, // chain broken: audit will report rc mismatch / dead nodes
        }
    }
    res
}

/// Canonical structural hash of the diagram below `root` (level, children hashes, tags):
/// equal functions under the same variable order have identical reduced diagrams and
/// therefore identical hashes, in any manager of the same kind.
/// Number of distinct nodes (inner nodes and terminals) reachable from `root`, by an explicit
/// walk over the children with a hash set of node ids (independent of `node_count()`)
pub fn walk_count<M: Manager>(m: &M, root: &M::Edge) -> usize {
    let mut seen: HashSet<usize> = HashSet::new();
    let mut stack = vec![m.clone_edge(root)];
    while let Some(e) = stack.pop() {
        if seen.insert(e.node_id()) {
            if let Node::Inner(n) = m.get_node(&e) {
                for c in n.children() {
                    stack.push(m.clone_edge(&*c));
                }
            }
        }
        m.drop_edge(e);
    }
    seen.len()
}

pub fn struct_hash<M: Manager>(m: &M, root: &M::Edge, term: &impl Fn(&M::Terminal) -> u64) -> u64
where
    M::InnerNode: HasLevel,
{
    use std::borrow::Borrow;
    fn mixh(a: u64, b: u64) -> u64 {
        crate::engine::mix(a ^ b.rotate_left(29) ^ 0x51ed_2701)
    }
    fn go<M: Manager>(m: &M, e: &M::Edge, memo: &mut HashMap<usize, u64>, term: &impl Fn(&M::Terminal) -> u64) -> u64
    where
        M::InnerNode: HasLevel,
    {
        let tag = e.tag().as_usize() as u64;
        let base = match m.get_node(e) {
            Node::Terminal(t) => mixh(0xface, term(t.borrow())),
            Node::Inner(n) => {
                let id = e.node_id();
                if let Some(h) = memo.get(&id) {
                    *h
                } else {
                    let mut h = mixh(0x1234, m.level_to_var(n.level()) as u64 + ((n.level() as u64) << 32));
                    for c in n.children() {
                        h = mixh(h, go(m, &*c, memo, term));
                    }
                    memo.insert(id, h);
                    h
                }
            }
        };
        mixh(base, tag)
    }
    go(m, root, &mut HashMap::new(), term)
}

/// Debug dump of all stored nodes
pub fn dump<M: Manager>(m: &M) -> String
where
    M::InnerNode: HasLevel,
{
    let mut s = String::new();
    s += &format!("order (level->var): {:?}\n", (0..m.num_levels()).map(|l| m.level_to_var(l)).collect::<Vec<_>>());
    for level in m.levels() {
        for e in level.iter() {
            let n = m.get_node(e).unwrap_inner();
            let cs: Vec<String> = n.children().map(|c| format!("{}{}", if c.tag().as_usize() != 0 { "!" } else { "" }, c.node_id())).collect();
            s += &format!("  L{} id={} level_in_node={} rc={} children={:?}\n", level.level_no(), e.node_id(), n.level(), n.ref_count(), cs);
        }
    }
    s
}

#[derive(Clone, Debug, serde::Serialize, serde::Deserialize)]
pub struct DdSettings {
    pub ascii: bool,
    pub v3: bool,
    pub strict: bool,
    pub diagram_name: String,
}

#[derive(Clone, Debug, Default)]
pub struct DdHeader {
    pub diagram_name: Option<String>,
    pub num_nodes: usize,
    pub num_vars: u32,
    pub support_vars: Vec<u32>,
    pub support_var_order: Vec<u32>,
    pub support_var_to_level: Vec<u32>,
    pub var_names: Option<Vec<String>>,
    pub num_roots: usize,
    pub root_names: Option<Vec<String>>,
}

pub fn dd_header(h: &oxidd_dump::dddmp::DumpHeader) -> DdHeader {
    DdHeader {
        diagram_name: h.diagram_name().map(|s| s.to_string()),
        num_nodes: h.num_nodes(),
        num_vars: h.num_vars(),
        support_vars: h.support_vars().to_vec(),
        support_var_order: h.support_var_order().to_vec(),
        support_var_to_level: h.support_var_to_level().to_vec(),
        var_names: h.var_names().map(|v| v.to_vec()),
        num_roots: h.num_roots(),
        root_names: h.root_names().map(|v| v.to_vec()),
    }
}

pub trait BoolKind: 'static {
    const KIND: BKind;
    const SEM: Sem;
    const NAME: &'static str;
    type F: BooleanFunction + Send + Sync;
    fn new_manager(inner: usize, cache: usize, threads: u32) -> MRef<Self>;
    /// independent interpreter
    fn interp(f: &Self::F, assign: usize) -> bool;
    fn table(f: &Self::F, n: u32) -> TT {
        TT::from_fn(n, |a| Self::interp(f, a))
    }
    /// structure + ref-count audit under the exclusive lock
    fn audit(mr: &MRef<Self>, handles: &[&Self::F], check_rc: bool) -> Result<AuditInfo, String>;
    fn set_var_order(mr: &MRef<Self>, order: &[VarNo], seq: bool);
    fn dump(mr: &MRef<Self>) -> String;
    /// canonical structural hash (comparable across managers with the same order)
    fn shash(f: &Self::F) -> u64;
    fn set_split_depth(mr: &MRef<Self>, d: Option<u32>);
    fn order(mr: &MRef<Self>) -> Vec<u32> {
        mr.with_manager_shared(|m| (0..m.num_levels()).map(|l| m.level_to_var(l)).collect())
    }
    fn num_vars(mr: &MRef<Self>) -> u32 {
        mr.with_manager_shared(|m| m.num_vars())
    }
    fn ref_count(f: &TT, order: &[u32]) -> usize {
        ref_node_count(Self::KIND, f, order)
    }
    /// root node info: (is_terminal, level)
    fn root_level(f: &Self::F) -> Option<u32>;
    /// quantification (q: 0 = exists, 1 = forall, 2 = unique); None if the kind has none
    fn quant(_q: u8, _f: &Self::F, _vars: &Self::F) -> Option<oxidd::util::AllocResult<Self::F>> {
        None
    }
    fn apply_quant(_q: u8, _op: oxidd::BooleanOperator, _f: &Self::F, _g: &Self::F, _vars: &Self::F) -> Option<oxidd::util::AllocResult<Self::F>> {
        None
    }
    /// substitution through a (possibly reused) Subst object
    fn substitute(_f: &Self::F, _s: &oxidd::Subst<Self::F>) -> Option<oxidd::util::AllocResult<Self::F>> {
        None
    }
    fn gc(mr: &MRef<Self>) -> usize {
        mr.with_manager_shared(|m| m.gc())
    }
    /// DDDMP export into a byte buffer; returns (file bytes, exporter result)
    fn dddmp_export(mr: &MRef<Self>, s: &DdSettings, roots: &[&Self::F], root_names: Option<&[String]>) -> (Vec<u8>, Result<(), String>);
    /// DDDMP import; `support_vars = None` uses header.support_var_order()
    fn dddmp_import(mr: &MRef<Self>, data: &[u8], support_vars: Option<&[u32]>) -> Result<(DdHeader, Vec<Self::F>), String>;
    fn num_inner_nodes(mr: &MRef<Self>) -> usize {
        mr.with_manager_shared(|m| m.num_inner_nodes())
    }
    /// distinct reachable nodes by an explicit walk (see [`walk_count`])
    fn walk_count(f: &Self::F) -> usize {
        f.with_manager_shared(|m, e| walk_count(m, e))
    }
    fn gc_count(mr: &MRef<Self>) -> u64 {
        mr.with_manager_shared(|m| m.gc_count())
    }
}

macro_rules! bool_kind {
    ($name:ident, $kind:expr, $sem:expr, $sname:expr, $modp:ident, $F:ty, $term_true:expr, $term_zero:expr, $is_zbdd:expr, {$($extra:tt)*}) => {
        pub struct $name;
        impl BoolKind for $name {
            const KIND: BKind = $kind;
            const SEM: Sem = $sem;
            const NAME: &'static str = $sname;
            type F = $F;
            fn new_manager(inner: usize, cache: usize, threads: u32) -> MRef<Self> {
                oxidd::$modp::new_manager(inner, cache, threads)
            }
            fn interp(f: &Self::F, assign: usize) -> bool {
                f.with_manager_shared(|m, e| interp_bool(m, e, assign, $sem, &$term_true))
            }
            fn audit(mr: &MRef<Self>, handles: &[&Self::F], check_rc: bool) -> Result<AuditInfo, String> {
                mr.with_manager_exclusive(|m| {
                    let roots: Vec<_> = handles.iter().map(|h| h.as_edge(m)).collect();
                    let internal = if $is_zbdd { zbdd_taut_chain(&*m, &$term_true) } else { HashMap::new() };
                    audit(&*m, &roots, $sem, 2, &$term_zero, check_rc, &internal)
                })
            }
            fn set_var_order(mr: &MRef<Self>, order: &[VarNo], seq: bool) {
                mr.with_manager_exclusive(|m| {
                    if seq {
                        oxidd_reorder::set_var_order_seq(m, order)
                    } else {
                        oxidd_reorder::set_var_order(m, order)
                    }
                })
            }
            fn dump(mr: &MRef<Self>) -> String {
                mr.with_manager_exclusive(|m| dump(&*m))
            }
            fn shash(f: &Self::F) -> u64 {
                f.with_manager_shared(|m, e| struct_hash(m, e, &|t| if ($term_true)(t) { 1 } else { 2 }))
            }
            fn dddmp_export(mr: &MRef<Self>, s: &DdSettings, roots: &[&Self::F], root_names: Option<&[String]>) -> (Vec<u8>, Result<(), String>) {
                use oxidd_dump::dddmp::{DDDMPVersion, ExportSettings};
                let mut buf: Vec<u8> = vec![];
                let mut es = ExportSettings::default().version(if s.v3 { DDDMPVersion::V3_0 } else { DDDMPVersion::V2_0 }).strict(s.strict).diagram_name(&s.diagram_name);
                es = if s.ascii { es.ascii() } else { es.binary() };
                let r = mr.with_manager_shared(|m| match root_names {
                    None => es.export(&mut buf, m, roots.iter().copied()),
                    Some(names) => es.export_with_names(&mut buf, m, roots.iter().copied().zip(names.iter())),
                });
                (buf, r.map_err(|e| e.to_string()))
            }
            fn dddmp_import(mr: &MRef<Self>, data: &[u8], support_vars: Option<&[u32]>) -> Result<(DdHeader, Vec<Self::F>), String> {
                let mut cur = std::io::Cursor::new(data);
                let header = oxidd_dump::dddmp::DumpHeader::load(&mut cur).map_err(|e| format!("header: {e}"))?;
                let h = dd_header(&header);
                let sv: Vec<u32> = match support_vars {
                    Some(v) => v.to_vec(),
                    None => header.support_var_order().to_vec(),
                };
                let fs = mr.with_manager_shared(|m| {
                    // preconditions of import(): one target per support variable, valid, sorted by level
                    if sv.len() != h.support_vars.len() || sv.iter().any(|v| *v >= m.num_vars()) {
                        return Err("precondition: support_vars do not fit the manager".to_string());
                    }
                    let lv: Vec<u32> = sv.iter().map(|v| m.var_to_level(*v)).collect();
                    if !lv.windows(2).all(|w| w[0] < w[1]) {
                        return Err("precondition: support_vars not sorted by level".to_string());
                    }
                    oxidd_dump::dddmp::import::<Self::F>(&mut cur, &header, m, sv.iter().copied(), <Self::F as BooleanFunction>::not_edge_owned).map_err(|e| format!("import: {e}"))
                })?;
                Ok((h, fs))
            }
            fn set_split_depth(mr: &MRef<Self>, d: Option<u32>) {
                use oxidd::{HasWorkers, WorkerPool};
                mr.with_manager_shared(|m| m.workers().set_split_depth(d))
            }
            fn root_level(f: &Self::F) -> Option<u32> {
                f.with_manager_shared(|m, e| match m.get_node(e) {
                    Node::Inner(n) => Some(n.level()),
                    Node::Terminal(_) => None,
                })
            }
            $($extra)*
        }
    };
}

macro_rules! quant_subst_impl {
    () => {
        fn quant(q: u8, f: &Self::F, vars: &Self::F) -> Option<oxidd::util::AllocResult<Self::F>> {
            use oxidd::BooleanFunctionQuant;
            Some(match q {
                0 => f.exists(vars),
                1 => f.forall(vars),
                _ => f.unique(vars),
            })
        }
        fn apply_quant(q: u8, op: oxidd::BooleanOperator, f: &Self::F, g: &Self::F, vars: &Self::F) -> Option<oxidd::util::AllocResult<Self::F>> {
            use oxidd::BooleanFunctionQuant;
            Some(match q {
                0 => f.apply_exists(op, g, vars),
                1 => f.apply_forall(op, g, vars),
                _ => f.apply_unique(op, g, vars),
            })
        }
        fn substitute(f: &Self::F, s: &oxidd::Subst<Self::F>) -> Option<oxidd::util::AllocResult<Self::F>> {
            use oxidd::FunctionSubst;
            Some(f.substitute(s))
        }
    };
}

use oxidd_rules_bdd::complement_edge::BCDDTerminal;
use oxidd_rules_bdd::simple::BDDTerminal;
use oxidd_rules_zbdd::ZBDDTerminal;

bool_kind!(
    BddK,
    BKind::Bdd,
    Sem::Bdd,
    "bdd",
    bdd,
    oxidd::bdd::BDDFunction,
    |t: &BDDTerminal| *t == BDDTerminal::True,
    |t: &BDDTerminal| *t == BDDTerminal::False,
    false,
    { quant_subst_impl!(); }
);
bool_kind!(
    BcddK,
    BKind::Bcdd,
    Sem::Bcdd,
    "bcdd",
    bcdd,
    oxidd::bcdd::BCDDFunction,
    |_t: &BCDDTerminal| true,
    |_t: &BCDDTerminal| false,
    false,
    { quant_subst_impl!(); }
);
bool_kind!(
    ZbddK,
    BKind::Zbdd,
    Sem::Zbdd,
    "zbdd",
    zbdd,
    oxidd::zbdd::ZBDDFunction,
    |t: &ZBDDTerminal| *t == ZBDDTerminal::Base,
    |t: &ZBDDTerminal| *t == ZBDDTerminal::Empty,
    true,
    {}
);
