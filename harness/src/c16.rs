//! C16 — variable and name bookkeeping stays a consistent bijection.

use std::io::Write;
use std::time::Instant;

use oxidd::{Manager, ManagerRef};
use oxidd_core::util::VarNameMap;
use proptest::prelude::*;
use serde::{Deserialize, Serialize};
use serde_json::json;

use crate::engine::*;
use crate::kinds::*;

#[derive(Clone, Debug, Serialize, Deserialize, PartialEq)]
pub enum NOp {
    AddVars(u8),
    AddNamed(Vec<String>),
    AddFromMap(Vec<String>),
    SetName(u16, String),
    /// manager level only: interleaved diagram activity
    Activity(u8),
}

/// reference model
#[derive(Default, Clone, Debug)]
struct Model {
    names: Vec<String>,
    ever: std::collections::BTreeSet<String>,
}

impl Model {
    fn holder(&self, s: &str) -> Option<u32> {
        if s.is_empty() { None } else { self.names.iter().position(|x| x == s).map(|p| p as u32) }
    }
    fn named(&self) -> usize {
        self.names.iter().filter(|s| !s.is_empty()).count()
    }
    /// returns Ok(range) or Err((name, present_var, added range))
    fn add_named(&mut self, list: &[String]) -> Result<std::ops::Range<u32>, (String, u32, std::ops::Range<u32>)> {
        let pre = self.names.len() as u32;
        for s in list {
            self.ever.insert(s.clone());
            if let Some(h) = self.holder(s) {
                return Err((s.clone(), h, pre..self.names.len() as u32));
            }
            self.names.push(s.clone());
        }
        Ok(pre..self.names.len() as u32)
    }
    fn set_name(&mut self, v: u32, s: &str) -> Result<(), (String, u32)> {
        self.ever.insert(s.to_string());
        match self.holder(s) {
            Some(h) if h != v => Err((s.to_string(), h)),
            _ => {
                self.names[v as usize] = s.to_string();
                Ok(())
            }
        }
    }
}

const ALPHA: [&str; 4] = ["", "a", "b", "c"];

fn check_map(m: &VarNameMap, model: &Model, when: &str) -> Result<(), String> {
    if m.len() as usize != model.names.len() {
        return Err(format!("len: {when}: len() = {}, model {}", m.len(), model.names.len()));
    }
    if m.named_count() as usize != model.named() {
        return Err(format!("named-count: {when}: named_count() = {}, model has {} named variables {:?}", m.named_count(), model.named(), model.names));
    }
    for (v, s) in model.names.iter().enumerate() {
        if m.var_name(v as u32) != s {
            return Err(format!("var-name: {when}: var_name({v}) = {:?}, model {:?}", m.var_name(v as u32), s));
        }
    }
    for s in ALPHA.iter().map(|s| s.to_string()).chain(model.ever.iter().cloned()) {
        let got = m.name_to_var(&s);
        let exp = model.holder(&s);
        if got != exp {
            return Err(format!("name-to-var: {when}: name_to_var({s:?}) = {got:?}, model {exp:?} (names {:?})", model.names));
        }
    }
    Ok(())
}

/// run a sequence directly on VarNameMap
fn run_map(ops: &[NOp]) -> Result<(bool, u64), String> {
    let mut m = VarNameMap::new();
    let mut model = Model::default();
    let mut nontrivial = false;
    let mut renamed: Option<String> = None;
    let mut checks = 0u64;
    for (i, op) in ops.iter().enumerate() {
        let when = format!("step {i} {op:?}");
        match op {
            NOp::AddVars(k) => {
                m.add_unnamed(*k as u32);
                for _ in 0..*k {
                    model.names.push(String::new());
                }
            }
            NOp::AddNamed(list) | NOp::AddFromMap(list) => {
                let got = m.add_named(list.iter().cloned());
                let exp = model.add_named(list);
                match (got, exp) {
                    (Ok(a), Ok(b)) if a == b => {}
                    (Err(e), Err((name, pv, added))) => {
                        if e.name != name || e.present_var != pv || e.added_vars != added {
                            return Err(format!("dup-report: {when}: error {e:?}, model expects name {name:?} present_var {pv} added_vars {added:?}"));
                        }
                        if added.end - added.start > 0 || list.len() > 1 {
                            nontrivial = true;
                        }
                    }
                    (g, e) => return Err(format!("dup-report: {when}: add_named returned {g:?}, model {e:?}")),
                }
            }
            NOp::SetName(vs, name) => {
                if model.names.is_empty() {
                    continue;
                }
                let v = ((*vs as usize * model.names.len()) >> 16) as u32;
                let old = model.names[v as usize].clone();
                let got = m.set_var_name(v, name.clone());
                let exp = model.set_name(v, name);
                match (got, exp) {
                    (Ok(()), Ok(())) => {
                        if !old.is_empty() && old != *name {
                            renamed = Some(old);
                        }
                    }
                    (Err(e), Err((n, pv))) => {
                        if e.name != n || e.present_var != pv {
                            return Err(format!("dup-report: {when}: error {e:?}, model expects {n:?} held by {pv}"));
                        }
                    }
                    (g, e) => return Err(format!("dup-report: {when}: set_var_name returned {g:?}, model {e:?}")),
                }
            }
            NOp::Activity(_) => {}
        }
        if renamed.is_some() {
            nontrivial = true; // lookup of the old name happens in check_map (it is in `ever`)
        }
        checks += 1;
        check_map(&m, &model, &when)?;
    }
    Ok((nontrivial, checks))
}

/// run a sequence on a manager
fn run_mgr<K: BoolKind>(ops: &[NOp]) -> Result<(bool, u64), String> {
    use oxidd::BooleanFunction;
    let mr = K::new_manager(1 << 10, 64, 1);
    let mut model = Model::default();
    let mut nontrivial = false;
    let mut checks = 0u64;
    let mut handles: Vec<(K::F, crate::model::TT)> = vec![];
    for (i, op) in ops.iter().enumerate() {
        let when = format!("step {i} {op:?}");
        match op {
            NOp::AddVars(k) => {
                let r = mr.with_manager_exclusive(|m| m.add_vars(*k as u32));
                let pre = model.names.len() as u32;
                if r != (pre..pre + *k as u32) {
                    return Err(format!("range: {when}: add_vars returned {r:?}"));
                }
                for _ in 0..*k {
                    model.names.push(String::new());
                }
            }
            NOp::AddNamed(list) | NOp::AddFromMap(list) => {
                let from_map = matches!(op, NOp::AddFromMap(_));
                let got = if from_map {
                    let mut vm = VarNameMap::new();
                    if vm.add_named(list.iter().cloned()).is_err() {
                        continue; // such a map cannot be built
                    }
                    mr.with_manager_exclusive(|m| m.add_named_vars_from_map(vm))
                } else {
                    mr.with_manager_exclusive(|m| m.add_named_vars(list.iter().cloned()))
                };
                let exp = model.add_named(list);
                match (got, exp) {
                    (Ok(a), Ok(b)) if a == b => {}
                    (Err(e), Err((name, pv, added))) => {
                        if e.name != name || e.present_var != pv || e.added_vars != added {
                            return Err(format!("dup-report: {when}: error {e:?}, model expects name {name:?} present_var {pv} added_vars {added:?}"));
                        }
                        nontrivial = true;
                    }
                    (g, e) => return Err(format!("dup-report: {when}: returned {g:?}, model {e:?}")),
                }
            }
            NOp::SetName(vs, name) => {
                if model.names.is_empty() {
                    continue;
                }
                let v = ((*vs as usize * model.names.len()) >> 16) as u32;
                let old = model.names[v as usize].clone();
                let got = mr.with_manager_exclusive(|m| m.set_var_name(v, name.clone()));
                let exp = model.set_name(v, name);
                match (got, exp) {
                    (Ok(()), Ok(())) => {
                        if !old.is_empty() && old != *name {
                            nontrivial = true;
                        }
                    }
                    (Err(e), Err((n, pv))) => {
                        if e.name != n || e.present_var != pv {
                            return Err(format!("dup-report: {when}: error {e:?}, model expects {n:?} held by {pv}"));
                        }
                    }
                    (g, e) => return Err(format!("dup-report: {when}: set_var_name returned {g:?}, model {e:?}")),
                }
            }
            NOp::Activity(k) => {
                let n = model.names.len() as u32;
                if n == 0 || n > 10 {
                    continue;
                }
                // create a handle, reorder, gc
                let v = *k as u32 % n;
                let f = mr.with_manager_shared(|m| K::F::var(m, v).map_err(|_| "oom"))?;
                let g = if let Some((h, _)) = handles.last() { f.xor(h).map_err(|_| "oom")? } else { f.clone() };
                let t = K::table(&g, n);
                handles.push((g, t));
                if k % 3 == 0 && n >= 2 {
                    let mut o: Vec<u32> = (0..n).collect();
                    o.rotate_left((*k as usize / 3) % n as usize);
                    K::set_var_order(&mr, &o, true);
                }
                if k % 5 == 0 {
                    K::gc(&mr);
                }
            }
        }
        // full comparison
        checks += 1;
        let n = model.names.len() as u32;
        mr.with_manager_shared(|m| -> Result<(), String> {
            if m.num_vars() != n || m.num_levels() != n {
                return Err(format!("len: {when}: num_vars {} num_levels {}, model {n}", m.num_vars(), m.num_levels()));
            }
            if m.num_named_vars() as usize != model.named() {
                return Err(format!("named-count: {when}: num_named_vars() = {}, model has {} ({:?})", m.num_named_vars(), model.named(), model.names));
            }
            for (v, s) in model.names.iter().enumerate() {
                if m.var_name(v as u32) != s {
                    return Err(format!("var-name: {when}: var_name({v}) = {:?}, model {s:?}", m.var_name(v as u32)));
                }
            }
            for s in ALPHA.iter().map(|s| s.to_string()).chain(model.ever.iter().cloned()) {
                let (got, exp) = (m.name_to_var(&s), model.holder(&s));
                if got != exp {
                    return Err(format!("name-to-var: {when}: name_to_var({s:?}) = {got:?}, model {exp:?} (names {:?})", model.names));
                }
            }
            // var <-> level maps stay permutations
            let mut seen = vec![false; n as usize];
            for l in 0..n {
                let v = m.level_to_var(l);
                if v >= n || seen[v as usize] || m.var_to_level(v) != l {
                    return Err(format!("level-map: {when}: level_to_var/var_to_level inconsistent at level {l}"));
                }
                seen[v as usize] = true;
            }
            Ok(())
        })?;
        // handles keep their function when variables are added (BDD-like kinds)
        if K::KIND != crate::model::BKind::Zbdd && n <= 10 {
            for (h, t) in handles.iter_mut() {
                if t.n < n {
                    *t = t.extend_dc(n);
                }
                if K::table(h, n) != *t {
                    return Err(format!("handle-changed: {when}: a handle created earlier denotes another function after the bookkeeping call"));
                }
            }
        }
    }
    // the diagram is well-formed and the reference counts are exact after the bookkeeping calls
    // (add_vars / add_named_vars / add_named_vars_from_map incl. rejected ones, renames)
    let hs: Vec<&K::F> = handles.iter().map(|h| &h.0).collect();
    K::audit(&mr, &hs, true).map_err(|e| format!("audit-after-name-operations: {e}"))?;
    checks += 1;
    Ok((nontrivial, checks))
}

/// Manager-level sequences run in forked children in batches: dropping a manager right
/// after creating it can leave its collector thread behind (it may miss the quit
/// signal), so a long-lived process must not create thousands of managers.
fn run_mgr_batch<K: BoolKind>(batch: &[Vec<NOp>]) -> Vec<Result<(bool, u64), String>> {
    let out = isolated(300, |w| {
        for (i, seq) in batch.iter().enumerate() {
            progress(&json!({"sig": format!("C16/{}/crash", K::NAME), "ops": seq}).to_string());
            let r = run_mgr::<K>(seq);
            let _ = writeln!(w, "{}", json!({"i": i, "ok": r.as_ref().ok(), "err": r.as_ref().err()}));
        }
    });
    let mut res: Vec<Result<(bool, u64), String>> = vec![];
    for l in &out.lines {
        if let Ok(v) = serde_json::from_str::<serde_json::Value>(l) {
            if v.get("i").is_some() {
                res.push(match v["err"].as_str() {
                    Some(e) => Err(e.to_string()),
                    None => Ok((v["ok"][0].as_bool().unwrap_or(false), v["ok"][1].as_u64().unwrap_or(0))),
                });
            }
        }
    }
    if res.len() < batch.len() {
        if out.end == End::Timeout {
            res.push(Err("timeout: watchdog".into()));
        } else {
            res.push(Err(format!("crash: child ended {:?} while running {}", out.end, out.progress)));
        }
    }
    res
}

fn alphabet(max_list: usize) -> Vec<NOp> {
    let mut a = vec![NOp::AddVars(1), NOp::AddVars(2)];
    let names = ["", "a", "b"];
    a.push(NOp::AddNamed(vec![]));
    for x in names {
        a.push(NOp::AddNamed(vec![x.into()]));
        if max_list >= 2 {
            for y in names {
                a.push(NOp::AddNamed(vec![x.into(), y.into()]));
            }
        }
    }
    a.push(NOp::AddFromMap(vec!["c".into()]));
    a.push(NOp::AddFromMap(vec!["a".into(), "".into()]));
    a.push(NOp::AddFromMap(vec!["".into(), "b".into()]));
    for v in [0u16, 30000, 60000] {
        for x in ALPHA {
            a.push(NOp::SetName(v, x.into()));
        }
    }
    a
}

fn exhaustive(len: usize, mgr: bool, shard: usize, shards: usize, rep: &mut Report) {
    let alpha = alphabet(2);
    let a = alpha.len();
    let mut idx = vec![0usize; len];
    let mut count = 0u64;
    let mut seqno = 0usize;
    progress(&json!({"sig": "C16/exhaustive/crash", "len": len, "manager": mgr}).to_string());
    let mut batch: Vec<Vec<NOp>> = vec![];
    let flush = |batch: &mut Vec<Vec<NOp>>, rep: &mut Report| {
        let rs = run_mgr_batch::<BddK>(batch);
        for (seq, r) in batch.iter().zip(rs) {
            match r {
                Ok((nt, c)) => {
                    rep.evaluations += c;
                    if nt {
                        rep.nontrivial += 1;
                    }
                }
                Err(m) if m.starts_with("timeout") => rep.inconclusive.push(m),
                Err(m) => rep.viol(format!("C16/{}", crate::hrun::category(&m)), m, json!({"level": "manager(bdd)", "ops": seq})),
            }
        }
        batch.clear();
    };
    'outer: loop {
        if seqno % shards == shard && mgr {
            batch.push(idx.iter().map(|&i| alpha[i].clone()).collect());
            count += 1;
            if batch.len() >= 250 {
                flush(&mut batch, rep);
            }
        } else if seqno % shards == shard {
            let seq: Vec<NOp> = idx.iter().map(|&i| alpha[i].clone()).collect();
            count += 1;
            let r = run_map(&seq);
            match r {
                Ok((nt, c)) => {
                    rep.evaluations += c;
                    if nt {
                        rep.nontrivial += 1;
                    }
                }
                Err(m) => {
                    rep.viol(format!("C16/{}", crate::hrun::category(&m)), m, json!({"level": if mgr { "manager(bdd)" } else { "VarNameMap" }, "ops": seq}));
                    if rep.viols.len() > 10 {
                        break;
                    }
                }
            }
            if rep.samples.is_empty() && count == 1000 {
                rep.sample(json!({"level": if mgr { "manager(bdd)" } else { "VarNameMap" }, "ops": seq}));
            }
        }
        seqno += 1;
        let mut p = len;
        loop {
            if p == 0 {
                break 'outer;
            }
            p -= 1;
            idx[p] += 1;
            if idx[p] < a {
                break;
            }
            idx[p] = 0;
        }
    }
    if !batch.is_empty() {
        flush(&mut batch, rep);
    }
    rep.class_n(&format!("exhaustive.{}.len{len}", if mgr { "manager" } else { "map" }), count);
}

fn name_strategy() -> impl Strategy<Value = String> {
    prop_oneof![
        3 => Just(String::new()),
        6 => proptest::sample::select(vec!["a", "b", "c", "x0", "x1"]).prop_map(|s| s.to_string()),
        3 => "[a-zäöß✓λ ]{1,4}",
    ]
}

fn nop_strategy() -> impl Strategy<Value = NOp> {
    prop_oneof![
        2 => (0u8..3).prop_map(NOp::AddVars),
        4 => proptest::collection::vec(name_strategy(), 0..4).prop_map(NOp::AddNamed),
        1 => proptest::collection::vec(name_strategy(), 0..3).prop_map(NOp::AddFromMap),
        6 => (any::<u16>(), name_strategy()).prop_map(|(v, s)| NOp::SetName(v, s)),
        3 => any::<u8>().prop_map(NOp::Activity),
    ]
}

fn random_job<K: BoolKind>(seed: u64, cases: u32, rep: &mut Report) {
    let strat = proptest::collection::vec(nop_strategy(), 5..40);
    let mut nt = 0u64;
    let mut evals = 0u64;
    let mut samples = vec![];
    let out = crate::pt::run2(
        seed,
        cases,
        &strat,
        |c| progress(&json!({"sig": format!("C16/{}/random/crash", K::NAME), "ops": c}).to_string()),
        |c, r: &Result<(bool, u64), String>| {
            if let Ok((n, e)) = r {
                evals += e;
                if *n {
                    nt += 1;
                    if samples.len() < 2 {
                        samples.push(json!({"kind": K::NAME, "ops": c}));
                    }
                }
            }
        },
        |c| {
            run_map(c)?;
            match run_mgr_batch::<K>(std::slice::from_ref(c)).pop().unwrap() {
                Err(m) if m.starts_with("timeout") => Ok((false, 0)),
                r => r,
            }
        },
    );
    rep.evaluations += evals;
    rep.nontrivial += nt;
    rep.class_n(&format!("random.{}", K::NAME), out.cases);
    for s in samples {
        rep.sample(s);
    }
    if let Some((c, msg)) = out.failure {
        rep.viol(format!("C16/{}", crate::hrun::category(&msg)), msg, json!({"kind": K::NAME, "ops": c}));
    }
}

pub fn run(cfg: &Cfg) -> i32 {
    let start = Instant::now();
    if let Some(path) = cfg.replay.as_ref().filter(|p| replay_case_is(p, |c| c["ops"].is_array())) {
        let v: serde_json::Value = serde_json::from_str(&std::fs::read_to_string(path).expect("replay file")).expect("json");
        let ops: Vec<NOp> = serde_json::from_value(v["case"]["ops"].clone()).expect("ops");
        let out = isolated(60, |w| {
            let r = run_map(&ops).and_then(|_| run_mgr::<BddK>(&ops)).and_then(|_| run_mgr::<ZbddK>(&ops));
            let _ = writeln!(w, "{}", json!({"ok": r.is_ok(), "msg": r.err()}));
        });
        let r: serde_json::Value = out.lines.iter().filter_map(|l| serde_json::from_str(l).ok()).next().unwrap_or(json!({"ok": false, "msg": format!("no verdict: {:?}", out.end)}));
        return if r["ok"].as_bool() == Some(true) {
            println!("replay: case passes");
            0
        } else {
            println!("VIOLATION property=C16 replay={path}\n  what: {}", r["msg"].as_str().unwrap_or("?"));
            1
        };
    }
    let mut jobs: Vec<Box<dyn FnMut(&mut dyn Write) + '_>> = vec![];
    let mut names = vec![];
    let shards = 8;
    for sh in 0..shards {
        let len = cfg.t(4, 5);
        names.push(format!("exhaustive-map/{sh}"));
        jobs.push(Box::new(move |w: &mut dyn Write| {
            let mut rep = Report::default();
            for l in 1..=len {
                exhaustive(l, false, sh, shards, &mut rep);
            }
            rep.emit(w);
        }));
        let len_m = cfg.t(3, 4);
        names.push(format!("exhaustive-mgr/{sh}"));
        jobs.push(Box::new(move |w: &mut dyn Write| {
            let mut rep = Report::default();
            for l in 1..=len_m {
                exhaustive(l, true, sh, shards, &mut rep);
            }
            rep.emit(w);
        }));
    }
    for sh in 0..cfg.t(2, 6) {
        let cases = cfg.t(2500, 30000);
        let s1 = mix(cfg.seed ^ (0xc16_100 + sh as u64));
        let s2 = mix(cfg.seed ^ (0xc16_200 + sh as u64));
        names.push(format!("random/bdd/{sh}"));
        jobs.push(Box::new(move |w: &mut dyn Write| {
            let mut rep = Report::default();
            random_job::<BddK>(s1, cases, &mut rep);
            rep.emit(w);
        }));
        names.push(format!("random/zbdd/{sh}"));
        jobs.push(Box::new(move |w: &mut dyn Write| {
            let mut rep = Report::default();
            random_job::<ZbddK>(s2, cases, &mut rep);
            rep.emit(w);
        }));
    }
    let outs = run_jobs(&mut jobs, cfg.par, cfg.t(600, 7200));
    drop(jobs);
    let mut total = Report::default();
    merge_jobs(&mut total, outs, &names);
    conclude(
        cfg,
        &total,
        Meta {
            level: "exploration",
            rule: "call sequences over add_vars(k), add_named_vars(list), add_named_vars_from_map(map), set_var_name(v, name): exhaustive over a 33-call alphabet (names from {\"\",a,b,c}, lists up to 2, 3 variable selectors) up to length 4 (thorough 5) directly on VarNameMap and up to length 3 (thorough 4) on a BDD manager; proptest sequences of 5..40 calls with unicode names interleaved with handle creation, reordering and gc on BDD and ZBDD managers. Oracle: Vec<String> model; after every call: num_vars == num_levels == len, var_name(v) for every v, name_to_var(s) for every name in the alphabet and every name ever used, num_named_vars, var<->level maps; a rejected call must report the model's holder of the name and the promised added_vars prefix and leave the model-predicted state; BDD handles keep their truth tables across add_*vars. Non-trivial = sequence with a rename of a named variable (the old name is then looked up) or a rejected duplicate.",
            assumptions: vec!["VarNameMap::clone is outside the property (its derive copies unowned pointers) and is never called".into()],
            extra: json!({}),
        },
        start,
    )
}
