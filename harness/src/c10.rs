//! C10 — MTBDD arithmetic = pointwise lifting of exact terminal arithmetic.

use std::collections::HashMap;
use std::io::Write;
use std::time::Instant;

use oxidd::mtbdd::terminal::{F64, I64};
use oxidd_core::function::NumberBase;
use proptest::prelude::*;
use serde_json::json;

use crate::engine::*;
use crate::hist::Checks;
use crate::vhist::*;
use crate::vkinds::*;
use crate::vmodel::*;

fn scalar_i64(rep: &mut Report) {
    let b: Vec<RI> = vec![
        RI::Num(0), RI::Num(1), RI::Num(-1), RI::Num(2), RI::Num(3), RI::Num(-7), RI::Num(i64::MIN), RI::Num(i64::MIN + 1), RI::Num(i64::MAX), RI::Num(i64::MAX - 1),
        RI::Num(1 << 32), RI::Num(-(1 << 32)), RI::Num(1 << 31), RI::Num(3037000500), RI::Num(-3037000500), RI::Num(i64::MAX / 2 + 1), RI::Num(i64::MIN / 2 - 1), RI::PInf, RI::NInf, RI::NaN,
    ];
    for x in &b {
        for y in &b {
            let (a, c) = (ri_to(x), ri_to(y));
            let ops: [(&str, I64, RI); 4] = [("add", NumberBase::add(&a, &c), x.add(*y)), ("sub", NumberBase::sub(&a, &c), x.sub(*y)), ("mul", NumberBase::mul(&a, &c), x.mul(*y)), ("div", NumberBase::div(&a, &c), x.div(*y))];
            for (name, got, exp) in ops {
                rep.evaluations += 1;
                if ri_from(&got) != exp {
                    // root-cause signature from the input class
                    let sig = match (name, x, y) {
                        ("add" | "sub", RI::Num(_), RI::Num(_)) => format!("C10/i64-scalar/{name}-overflow-sign"),
                        _ => format!("C10/i64-scalar/{name}"),
                    };
                    rep.viol(sig, format!("I64 {x:?} {name} {y:?} = {got:?}, exact arithmetic gives {exp:?}"), json!({"op": name, "lhs": format!("{x:?}"), "rhs": format!("{y:?}")}));
                }
                if matches!((x, y), (RI::Num(_), RI::Num(_))) && !matches!(exp, RI::Num(_)) {
                    rep.nontrivial += 1; // exact result leaves i64's range
                }
            }
            rep.evaluations += 2;
            if a.partial_cmp(&c) != x.partial_cmp(*y) {
                rep.viol("C10/i64-scalar/partial_cmp", format!("I64 {x:?} partial_cmp {y:?} = {:?}", a.partial_cmp(&c)), json!({"op": "partial_cmp", "lhs": format!("{x:?}"), "rhs": format!("{y:?}")}));
            }
            if (a == c) != (x == y) {
                rep.viol("C10/i64-scalar/eq", format!("I64 {x:?} == {y:?} is {}", a == c), json!({"op": "eq"}));
            }
        }
    }
    rep.class_n("i64 scalar pairs", (b.len() * b.len()) as u64);
}

fn scalar_f64(rep: &mut Report) {
    let b: Vec<f64> = vec![0.0, -0.0, 1.0, -1.0, 2.0, 3.0, -7.0, 0.5, f64::MAX, f64::MIN, f64::MIN_POSITIVE, f64::MIN_POSITIVE / 8.0, 1e308, f64::INFINITY, f64::NEG_INFINITY, f64::NAN, -f64::NAN, f64::from_bits(0x7ff0000000000001)];
    for &x in &b {
        for &y in &b {
            let (a, c) = (F64::from(x), F64::from(y));
            let (rx, ry) = (RF::new(x), RF::new(y));
            let ops: [(&str, F64, RF); 4] = [("add", NumberBase::add(&a, &c), RF::new(rx.get() + ry.get())), ("sub", NumberBase::sub(&a, &c), RF::new(rx.get() - ry.get())), ("mul", NumberBase::mul(&a, &c), RF::new(rx.get() * ry.get())), ("div", NumberBase::div(&a, &c), RF::new(rx.get() / ry.get()))];
            for (name, got, exp) in ops {
                rep.evaluations += 1;
                if rf_from(&got) != exp {
                    rep.viol(format!("C10/f64-scalar/{name}"), format!("F64 {x:?} {name} {y:?} = {:?} (bits {:x}), IEEE with NaN/-0 normalised gives {exp:?} (bits {:x})", f64::from(got), f64::from(got).to_bits(), exp.0), json!({"op": name, "lhs": x.to_bits(), "rhs": y.to_bits()}));
                }
                if exp.is_nan() || exp.get() == 0.0 {
                    rep.nontrivial += 1;
                }
            }
            rep.evaluations += 1;
            if (a == c) != (rx == ry) {
                rep.viol("C10/f64-scalar/eq", format!("F64 {x:?} == {y:?} is {}", a == c), json!({"lhs": x.to_bits(), "rhs": y.to_bits()}));
            }
        }
    }
    rep.class_n("f64 scalar pairs", (b.len() * b.len()) as u64);
}

/// all pairs of 2-variable tables over a 5-value palette x 6 operators, ite with every
/// 0-1-valued condition, restrict with every cube
fn exh2<K: VKind>(pal5: Vec<K::V>, order: Vec<u32>, rep: &mut Report) {
    let ctx = json!({"kind": K::NAME, "order": order, "palette": format!("{pal5:?}")});
    progress(&json!({"sig": format!("C10/{}/crash-setup", K::NAME), "ctx": ctx}).to_string());
    let mr = vmk_manager::<K>(2, &order, 1 << 10, 1);
    let tables: Vec<VT<K::V>> = (0..625usize).map(|c| VT::from_fn(2, 2, |i| pal5[(c / 5usize.pow(i as u32)) % 5].clone())).collect();
    let mut memo = HashMap::new();
    let mut fns = vec![];
    for t in &tables {
        let f = match vbuild::<K>(&mr, t, &mut memo) {
            Ok(f) => f,
            Err(e) => {
                rep.viol(format!("C10/{}/construct", K::NAME), e, json!({"ctx": ctx}));
                return;
            }
        };
        rep.evaluations += 1;
        let got = K::table(&f, 2);
        if got != *t {
            rep.viol(format!("C10/{}/construct", K::NAME), format!("building {:?} by ite yields {:?}", t.vals, got.vals), json!({"ctx": ctx, "table": format!("{:?}", t.vals)}));
            return;
        }
        // library eval agrees with the interpreter
        for i in 0..4usize {
            let d = [i % 2, i / 2];
            if K::eval(&f, &d) != t.vals[i] {
                rep.viol(format!("C10/{}/eval", K::NAME), format!("eval of {:?} at {d:?} = {:?}", t.vals, K::eval(&f, &d)), json!({"ctx": ctx}));
            }
        }
        fns.push(f);
    }
    let index: HashMap<VT<K::V>, usize> = tables.iter().cloned().enumerate().map(|(i, t)| (t, i)).collect();
    let zero = K::var_value(0);
    let one = K::var_value(1);
    for o in 0..6usize {
        for a in 0..625usize {
            progress(&json!({"sig": format!("C10/{}/{}/crash", K::NAME, MT_BINS[o]), "ctx": ctx, "a": format!("{:?}", tables[a].vals)}).to_string());
            // results are dropped at once: collect them - a full node or terminal store is not
            // what this suite tests (whether the collector thread gets to run in time depends on
            // the machine)
            K::gc(&mr);
            for b in 0..625usize {
                let r = match K::bin(o, &fns[a], &fns[b]).or_else(|_| {
                    K::gc(&mr);
                    K::bin(o, &fns[a], &fns[b])
                }) {
                    Ok(r) => r,
                    Err(e) => {
                        rep.viol(format!("C10/{}/{}", K::NAME, MT_BINS[o]), e, json!({"ctx": ctx}));
                        continue;
                    }
                };
                let exp = tables[a].map2(&tables[b], |x, y| K::bin_model(o, x, y));
                rep.evaluations += 1;
                let ok = match index.get(&exp) {
                    Some(&i) => r == fns[i] || K::table(&r, 2) == exp,
                    None => K::table(&r, 2) == exp,
                };
                let a_const = tables[a].is_const();
                let b_const = tables[b].is_const();
                let shortcut = |c: Option<&K::V>| c.map_or(false, |c| *c == zero || *c == one || K::palette().last() == Some(c));
                if (shortcut(a_const) && b_const.is_none()) || (shortcut(b_const) && a_const.is_none()) {
                    rep.nontrivial += 1;
                }
                if !ok {
                    let got = K::table(&r, 2);
                    // input-based signature
                    let sig = if o == 1 && a_const == Some(&zero) && b_const.is_none() {
                        format!("C10/{}/sub-zero-lhs", K::NAME)
                    } else {
                        format!("C10/{}/{}", K::NAME, MT_BINS[o])
                    };
                    rep.viol(sig, format!("{}({:?}, {:?}) = {:?}, pointwise lifting gives {:?}", MT_BINS[o], tables[a].vals, tables[b].vals, got.vals, exp.vals), json!({"ctx": ctx, "op": MT_BINS[o], "a": format!("{:?}", tables[a].vals), "b": format!("{:?}", tables[b].vals)}));
                }
            }
        }
    }
    rep.class_n(&format!("{}.pairs_x_6_ops", K::NAME), 6 * 625 * 625);
    // ite with every 0-1-valued condition (16 tables), then/else sampled: every 7th table pair
    let conds: Vec<usize> = (0..625).filter(|&i| tables[i].vals.iter().all(|v| *v == zero || *v == one)).collect();
    let mut n_ite = 0u64;
    for &c in &conds {
        progress(&json!({"sig": format!("C10/{}/ite/crash", K::NAME), "ctx": ctx}).to_string());
        for a in (0..625).step_by(3) {
            K::gc(&mr);
            for b in (0..625).step_by(7) {
                let r = K::ite(&fns[c], &fns[a], &fns[b]).or_else(|_| {
                    K::gc(&mr);
                    K::ite(&fns[c], &fns[a], &fns[b])
                });
                let exp = tables[c].map3(&tables[a], &tables[b], K::ite_model);
                n_ite += 1;
                rep.evaluations += 1;
                match r {
                    Ok(r) if K::table(&r, 2) == exp => {}
                    Ok(r) => rep.viol(format!("C10/{}/ite", K::NAME), format!("ite({:?}, {:?}, {:?}) = {:?}, expected {:?}", tables[c].vals, tables[a].vals, tables[b].vals, K::table(&r, 2).vals, exp.vals), json!({"ctx": ctx, "op": "ite"})),
                    Err(e) => rep.viol(format!("C10/{}/ite", K::NAME), e, json!({"ctx": ctx})),
                }
            }
        }
    }
    rep.class_n(&format!("{}.ite", K::NAME), n_ite);
    // restrict with every cube
    let x: Vec<K::F> = (0..2).map(|v| K::var(&mr, v).unwrap()).collect();
    let c1 = K::constant(&mr, &one).unwrap();
    let c0 = K::constant(&mr, &zero).unwrap();
    for code in 0..9usize {
        let lits = [code % 3, code / 3]; // 0 none, 1 pos, 2 neg
        let mut cube = c1.clone();
        for v in 0..2 {
            cube = match lits[v] {
                1 => K::ite(&x[v], &cube, &c0).unwrap(),
                2 => K::ite(&x[v], &c0, &cube).unwrap(),
                _ => cube,
            };
        }
        K::gc(&mr);
        for a in 0..625usize {
            let r = K::restrict(&fns[a], &cube).unwrap().or_else(|_| {
                K::gc(&mr);
                K::restrict(&fns[a], &cube).unwrap()
            });
            let mut exp = tables[a].clone();
            for v in 0..2u32 {
                exp = match lits[v as usize] {
                    1 => exp.cof(v, 1),
                    2 => exp.cof(v, 0),
                    _ => exp,
                };
            }
            rep.evaluations += 1;
            match r {
                Ok(r) if K::table(&r, 2) == exp => {}
                Ok(r) => rep.viol(format!("C10/{}/restrict", K::NAME), format!("restrict({:?}, literals {lits:?}) = {:?}, expected {:?}", tables[a].vals, K::table(&r, 2).vals, exp.vals), json!({"ctx": ctx, "op": "restrict"})),
                Err(e) => rep.viol(format!("C10/{}/restrict", K::NAME), e, json!({"ctx": ctx})),
            }
        }
    }
    rep.class_n(&format!("{}.restrict", K::NAME), 9 * 625);
    if rep.samples.is_empty() {
        rep.sample(json!({"ctx": ctx, "suite": "625 value tables over 2 variables: all pairs x {add,sub,mul,div,min,max}; ite with all 16 0-1-valued conditions; restrict with all 9 cubes"}));
    }
}

// random tables over 1..4 variables, boundary-heavy values
#[derive(Clone, Debug)]
struct RCase {
    n: u32,
    order_keys: Vec<u16>,
    a: Vec<u8>,
    b: Vec<u8>,
    c: Vec<bool>,
}

fn rstrategy() -> impl Strategy<Value = RCase> {
    (1u32..=4).prop_flat_map(|n| {
        let sz = 1usize << n;
        (Just(n), proptest::collection::vec(any::<u16>(), 6), proptest::collection::vec(0u8..32, sz), proptest::collection::vec(0u8..32, sz), proptest::collection::vec(any::<bool>(), sz)).prop_map(|(n, order_keys, a, b, c)| RCase { n, order_keys, a, b, c })
    })
}

fn rcheck<K: VKind>(c: &RCase) -> Result<(), String> {
    let pal = K::palette();
    let order = crate::c02::order_from_keys(c.n, &c.order_keys);
    let mr = vmk_manager::<K>(c.n, &order, 64, 1);
    // values: palette entries, with small values more frequent
    let pick = |x: u8| pal[(x as usize) % pal.len()].clone();
    let ta = VT::from_fn(c.n, 2, |i| pick(c.a[i]));
    let tb = VT::from_fn(c.n, 2, |i| pick(c.b[i]));
    let tc = VT::from_fn(c.n, 2, |i| K::var_value(c.c[i] as usize));
    let mut memo = HashMap::new();
    let fa = vbuild::<K>(&mr, &ta, &mut memo)?;
    let fb = vbuild::<K>(&mr, &tb, &mut memo)?;
    let fc = vbuild::<K>(&mr, &tc, &mut memo)?;
    for (f, t) in [(&fa, &ta), (&fb, &tb), (&fc, &tc)] {
        if K::table(f, c.n) != *t {
            return Err(format!("construct: {:?}", t.vals));
        }
        use oxidd::Function;
        let (cnt, exp) = (f.node_count(), t.ref_node_count(&order));
        if cnt != exp {
            return Err(format!("node-count: {cnt} vs reference {exp} for {:?}", t.vals));
        }
    }
    for o in 0..6 {
        let r = K::bin(o, &fa, &fb)?;
        let exp = ta.map2(&tb, |x, y| K::bin_model(o, x, y));
        let got = K::table(&r, c.n);
        if got != exp {
            return Err(format!("{}: ({:?}, {:?}) = {:?}, expected {:?}", MT_BINS[o], ta.vals, tb.vals, got.vals, exp.vals));
        }
        // different operator on the same operands right away (cache cross-talk)
        let o2 = (o + 1) % 6;
        let r2 = K::bin(o2, &fa, &fb)?;
        let exp2 = ta.map2(&tb, |x, y| K::bin_model(o2, x, y));
        if K::table(&r2, c.n) != exp2 {
            return Err(format!("{}-after-{}: ({:?}, {:?}) = {:?}, expected {:?}", MT_BINS[o2], MT_BINS[o], ta.vals, tb.vals, K::table(&r2, c.n).vals, exp2.vals));
        }
    }
    let r = K::ite(&fc, &fa, &fb)?;
    if K::table(&r, c.n) != tc.map3(&ta, &tb, K::ite_model) {
        return Err("ite: wrong result".into());
    }
    Ok(())
}

fn rand_job<K: VKind>(seed: u64, cases: u32, rep: &mut Report) {
    let strat = rstrategy();
    let mut samples = vec![];
    let out = crate::pt::run(
        seed,
        cases,
        &strat,
        |c| {
            if samples.len() < 2 {
                samples.push(json!({"kind": K::NAME, "case": format!("{c:?}")}));
            }
            progress(&json!({"sig": format!("C10/{}/random/crash", K::NAME), "case": format!("{c:?}")}).to_string());
        },
        rcheck::<K>,
    );
    rep.evaluations += out.cases * 16;
    rep.nontrivial += out.cases;
    rep.class_n(&format!("{}.random_cases", K::NAME), out.cases);
    for s in samples {
        rep.sample(s);
    }
    if let Some((c, msg)) = out.failure {
        rep.viol(format!("C10/{}/random/{}", K::NAME, crate::hrun::category(&msg)), msg, json!({"kind": K::NAME, "case": format!("{c:?}")}));
    }
}

pub fn run(cfg: &Cfg) -> i32 {
    let start = Instant::now();
    let checks = Checks { canon: true, structure: true, rc: false, node_count: true };
    if let Some(path) = cfg.replay.as_ref().filter(|p| replay_case_is(p, |c| c["ops"].is_array() && c["cfg"].is_object())) {
        let v: serde_json::Value = serde_json::from_str(&std::fs::read_to_string(path).expect("replay file")).expect("json");
        let case = &v["case"];
        let r = match case["kind"].as_str().unwrap_or("") {
            "mtbdd-i64" => vreplay::<MtI64K>(case, checks),
            "mtbdd-f64" => vreplay::<MtF64K>(case, checks),
            _ => Err("replay: only history cases can be replayed individually; re-run the tier for exhaustive suites".to_string()),
        };
        return match r {
            Ok(_) => {
                println!("replay: case passes");
                0
            }
            Err(m) => {
                println!("VIOLATION property=C10 replay={path}\n  what: {m}");
                1
            }
        };
    }
    let mut jobs: Vec<Box<dyn FnMut(&mut dyn Write) + '_>> = vec![];
    let mut names = vec![];
    for (k, salt) in [("i64", 1u64), ("f64", 2)] {
        let seed = mix(cfg.seed ^ (0xc10_700 + salt));
        let cases = cfg.t(400, 6000);
        names.push(format!("wide-eval/{k}"));
        jobs.push(Box::new(move |w: &mut dyn Write| {
            let mut rep = Report::default();
            if salt == 1 {
                chunked(seed, cases, 500, &mut rep, |s, n, r| crate::c02w::wide_val::<MtI64K>("C10", s, n, r));
            } else {
                chunked(seed, cases, 500, &mut rep, |s, n, r| crate::c02w::wide_val::<MtF64K>("C10", s, n, r));
            }
            rep.emit(w);
        }));
    }
    names.push("scalar".to_string());
    jobs.push(Box::new(|w: &mut dyn Write| {
        let mut rep = Report::default();
        scalar_i64(&mut rep);
        scalar_f64(&mut rep);
        rep.sample(json!({"suite": "scalar", "example": "I64 Num(i64::MIN) add Num(-1) -> exact -2^63-1 -> MinusInf"}));
        rep.emit(w);
    }));
    let pals_i: Vec<Vec<RI>> = vec![vec![RI::Num(0), RI::Num(1), RI::Num(-7), RI::PInf, RI::NaN], vec![RI::Num(0), RI::Num(i64::MAX), RI::Num(i64::MIN), RI::NInf, RI::Num(2)]];
    let pals_f: Vec<Vec<RF>> = vec![vec![RF::new(0.0), RF::new(1.0), RF::new(-7.5), RF::new(f64::INFINITY), RF::new(f64::NAN)], vec![RF::new(0.0), RF::new(f64::MAX), RF::new(-1.0), RF::new(f64::NEG_INFINITY), RF::new(0.5)]];
    for (pi, p) in pals_i.into_iter().enumerate() {
        for order in [vec![0u32, 1], vec![1, 0]] {
            if !cfg.thorough && pi == 1 && order[0] == 0 {
                continue;
            }
            let p = p.clone();
            names.push(format!("exh2/i64/{pi}/{order:?}"));
            jobs.push(Box::new(move |w: &mut dyn Write| {
                let mut rep = Report::default();
                exh2::<MtI64K>(p.clone(), order.clone(), &mut rep);
                rep.emit(w);
            }));
        }
    }
    for (pi, p) in pals_f.into_iter().enumerate() {
        for order in [vec![0u32, 1], vec![1, 0]] {
            if !cfg.thorough && pi == 1 && order[0] == 0 {
                continue;
            }
            let p = p.clone();
            names.push(format!("exh2/f64/{pi}/{order:?}"));
            jobs.push(Box::new(move |w: &mut dyn Write| {
                let mut rep = Report::default();
                exh2::<MtF64K>(p.clone(), order.clone(), &mut rep);
                rep.emit(w);
            }));
        }
    }
    for sh in 0..cfg.t(2, 4) {
        let cases = cfg.t(3000, 40000);
        let s1 = mix(cfg.seed ^ (0xc10_100 + sh as u64));
        let s2 = mix(cfg.seed ^ (0xc10_200 + sh as u64));
        names.push(format!("rand/i64/{sh}"));
        jobs.push(Box::new(move |w: &mut dyn Write| {
            let mut rep = Report::default();
            chunked(s1, cases, 500, &mut rep, |s, n, r| rand_job::<MtI64K>(s, n, r));
            rep.emit(w);
        }));
        names.push(format!("rand/f64/{sh}"));
        jobs.push(Box::new(move |w: &mut dyn Write| {
            let mut rep = Report::default();
            chunked(s2, cases, 500, &mut rep, |s, n, r| rand_job::<MtF64K>(s, n, r));
            rep.emit(w);
        }));
        let cases_h = cfg.t(600, 8000);
        let s3 = mix(cfg.seed ^ (0xc10_300 + sh as u64));
        let s4 = mix(cfg.seed ^ (0xc10_400 + sh as u64));
        names.push(format!("hist/i64/{sh}"));
        jobs.push(Box::new(move |w: &mut dyn Write| {
            let mut rep = Report::default();
            vhist_campaign::<MtI64K>("C10", s3, cases_h, checks, 3, 5, &[64], &mut rep, &|s| s.binpairs > 0);
            rep.emit(w);
        }));
        names.push(format!("hist/f64/{sh}"));
        jobs.push(Box::new(move |w: &mut dyn Write| {
            let mut rep = Report::default();
            vhist_campaign::<MtF64K>("C10", s4, cases_h, checks, 3, 5, &[64], &mut rep, &|s| s.binpairs > 0);
            rep.emit(w);
        }));
    }
    let outs = run_jobs(&mut jobs, cfg.par, cfg.t(900, 7200));
    drop(jobs);
    let mut total = Report::default();
    merge_jobs(&mut total, outs, &names);
    conclude(
        cfg,
        &total,
        Meta {
            level: "exploration",
            rule: "scalars: every ordered pair of 20 I64 / 18 F64 boundary values x {add,sub,mul,div} + comparison, against exact i128 arithmetic (I64) resp. IEEE with NaN/-0 normalised (F64). Functions: all 625x625 pairs of 2-variable value tables over 5-value palettes x 6 operators, ite with every 0-1-valued condition, restrict with every cube, under both orders; random tables over 1..4 variables with boundary-heavy values (each operator followed by another operator on the same operands); proptest histories (constants, vars, arithmetic, ite, restrict, gc, reorder, add_vars, BinPair) with table comparison, canonicity and structure audit after every step. Oracle: pointwise lifting of the scalar reference. Non-trivial = scalar pair whose exact result leaves i64 / yields NaN or zero; function pair with a shortcut constant (0, 1, NaN) against a non-constant function; history with two operators on the same operands. Wide managers: 9..200 variables (incl. 63/64/65/127/128/129) under random orders, random expressions over <= 4 variables that include the bottom level, block-boundary levels and the largest variable number; eval() with shuffled complete argument lists, repeated variables (the last value counts), and lists omitting a support variable (documented default: false) must give the expression's value under the model.",
            assumptions: vec!["finite / +-inf = 0 (IEEE convention; the property is silent on it)".into(), "inf / 0 takes the sign of the infinity".into()],
            extra: json!({}),
        },
        start,
    )
}
