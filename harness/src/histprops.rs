//! C03, C05, C06: history-driven properties that share the engine and differ in
//! the audits that are the deciding oracle.

use std::io::Write;
use std::time::Instant;

use serde_json::json;

use crate::engine::*;
use crate::hist::*;
use crate::hrun::*;
use crate::kinds::*;

pub struct HP {
    pub prop: &'static str,
    pub checks: Checks,
    pub weights: Weights,
    pub caches: Vec<usize>,
    pub threads: Vec<u32>,
    pub quick_cases: u32,
    pub thorough_cases: u32,
    pub shards_q: u32,
    pub shards_t: u32,
    pub nontrivial: fn(&CaseStats) -> bool,
    pub rule: &'static str,
    pub assumptions: Vec<String>,
    pub inner_cap: usize,
}

fn replay(hp: &HP, cfg: &Cfg, path: &str) -> i32 {
    let v: serde_json::Value = serde_json::from_str(&std::fs::read_to_string(path).expect("replay file")).expect("json");
    let case = &v["case"];
    let kind = case["kind"].as_str().unwrap_or("");
    let sig = v["signature"].as_str().unwrap_or("");
    if hp.prop == "C05" {
        if let Some(r) = crate::c05x::replay_scenario(sig, case) {
            return match r {
                Ok(()) => {
                    println!("replay: case passes");
                    0
                }
                Err(m) => {
                    println!("VIOLATION property={} replay={}", cfg.prop, path);
                    println!("  what: {m}");
                    1
                }
            };
        }
    }
    let vchecks = hp.checks;
    let r = match kind {
        "mtbdd-i64" => crate::vhist::vreplay::<crate::vkinds::MtI64K>(case, vchecks),
        "mtbdd-f64" => crate::vhist::vreplay::<crate::vkinds::MtF64K>(case, vchecks),
        "tdd" => crate::vhist::vreplay::<crate::vkinds::TddK>(case, vchecks),
        "bdd" => replay_case::<BddK>(hp.prop, case, hp.checks),
        "bcdd" => replay_case::<BcddK>(hp.prop, case, hp.checks),
        "zbdd" => replay_case::<ZbddK>(hp.prop, case, hp.checks),
        _ => Err(format!("replay: unsupported case kind {kind:?}")),
    };
    match r {
        Ok(_) => {
            println!("replay: case passes");
            0
        }
        Err(m) => {
            println!("VIOLATION property={} replay={}", cfg.prop, path);
            println!("  what: {m}");
            1
        }
    }
}

pub type ExtraJobs<'a> = fn(&'a Cfg, &mut Vec<Box<dyn FnMut(&mut dyn Write) + 'a>>, &mut Vec<String>);

pub fn run<'a>(cfg: &'a Cfg, hp: HP, extra_jobs: ExtraJobs<'a>) -> i32 {
    let start = Instant::now();
    if let Some(path) = cfg.replay.as_ref().filter(|p| replay_case_is(p, |c| (c["ops"].is_array() && c["cfg"].is_object()) || (c["seed"].is_u64() && (c.get("capacity").is_some() || c.get("terminal_capacity").is_some())))) {
        return replay(&hp, cfg, path);
    }
    let mut jobs: Vec<Box<dyn FnMut(&mut dyn Write) + 'a>> = vec![];
    let mut names = vec![];
    let shards = cfg.t(hp.shards_q, hp.shards_t);
    let hpr = &hp;
    macro_rules! add_kind {
        ($K:ty, $salt:expr) => {
            for sh in 0..shards {
                let mut job = HistJob {
                    prop: hpr.prop,
                    seed: mix(cfg.seed ^ (hpr.prop.as_bytes()[2] as u64 * 7919 + hpr.prop.as_bytes()[1] as u64 * 104729 + $salt * 100 + sh as u64)),
                    cases: cfg.t(hpr.quick_cases, hpr.thorough_cases),
                    weights: hpr.weights,
                    nmin: if sh % 2 == 0 { 3 } else { 4 },
                    nmax: if sh % 2 == 0 { 5 } else { 8 },
                    len: 10..60,
                    threads: hpr.threads.clone(),
                    caches: hpr.caches.clone(),
                    checks: hpr.checks,
                };
                job.weights = hpr.weights;
                names.push(format!("hist/{}/{}", <$K>::NAME, sh));
                let nt = hpr.nontrivial;
                jobs.push(Box::new(move |w: &mut dyn Write| {
                    let mut rep = Report::default();
                    hist_campaign::<$K>(&job, &mut rep, &nt, &|_| Ok(()));
                    rep.emit(w);
                }));
            }
        };
    }
    add_kind!(BddK, 1);
    add_kind!(BcddK, 2);
    add_kind!(ZbddK, 3);
    extra_jobs(cfg, &mut jobs, &mut names);
    crate::fzrun::add_jobs(cfg, hp.prop, &mut jobs, &mut names);
    let outs = run_jobs(&mut jobs, cfg.par, cfg.t(900, 7200));
    drop(jobs);
    let mut total = Report::default();
    merge_jobs(&mut total, outs, &names);
    conclude(cfg, &total, Meta { level: "exploration", rule: hp.rule, assumptions: hp.assumptions.clone(), extra: json!({}) }, start)
}

pub fn c03(cfg: &Cfg) -> i32 {
    run(
        cfg,
        HP {
            prop: "C03",
            checks: Checks { canon: false, structure: true, rc: false, node_count: true },
            weights: Weights { gc: 8, reorder: 8, add_vars: 3, ..Weights::default() },
            caches: vec![1, 16, 4096],
            threads: vec![1, 1, 4],
            quick_cases: 1200,
            thorough_cases: 15000,
            shards_q: 4,
            shards_t: 12,
            nontrivial: |s| s.audits_with_dead > 0 && (s.gcs > 0 || s.reorders_effective > 0 || s.add_vars > 0),
            rule: "proptest histories (apply/ite/quantify/substitute/restrict/cofactor, clone/drop, gc, churn, add_vars, set_var_order) over 3..8 variables for BDD/BCDD/ZBDD. After every step the structural audit runs under the exclusive lock: every stored node is listed in the level it reports, children strictly below, kind's reduction rule (BCDD: then-edge uncomplemented), no two nodes of a level with identical children, level sizes sum to num_inner_nodes, var<->level maps mutually inverse; every result's node_count() equals the size of the reference reduced diagram computed from its truth table under the current order. Non-trivial = history with >=1 audit executed while unreachable (dead, uncollected) nodes exist on >=2 non-empty levels and at least one gc/effective reorder/add_vars. MTBDD/TDD structure is audited by C10/C11's engines; import and failed operations by C15/C14.",
            assumptions: vec!["reference canonical sizes computed from truth tables in the harness (model.rs)".into()],
            inner_cap: 1 << 14,
        },
        crate::c05x::add_jobs_c03,
    )
}

pub fn c05(cfg: &Cfg) -> i32 {
    run(
        cfg,
        HP {
            prop: "C05",
            checks: Checks { canon: false, structure: true, rc: true, node_count: false },
            weights: Weights { lifecycle: 30, gc: 14, reorder: 4, add_vars: 2, rebuild: 8, ..Weights::default() },
            caches: vec![1, 16, 4096],
            threads: vec![1, 1, 4],
            quick_cases: 1200,
            thorough_cases: 15000,
            shards_q: 4,
            shards_t: 12,
            nontrivial: |s| s.gc_with_live > 0 && s.gc_removed > 0,
            rule: "proptest histories biased to clone/drop (also on another thread)/gc/churn/rebuild for BDD/BCDD/ZBDD. After every step Audit B runs under the exclusive lock: for every stored node, ref_count() == number of live handles (pool + substitution objects) + stored parent edges + manager-internal references (ZBDD tautology chain, recomputed structurally). Around every gc(): the number of nodes unreachable from handles before == gc()'s return value == drop in num_inner_nodes, nothing unreachable remains, every pooled handle still has its table. The final DropAll+gc baseline/capacity probe runs as an extra job. COVERAGE-GUIDED FUZZING: libFuzzer target `history` (harness/fuzz; decoder in fz.rs): byte streams decoded into the same operation language (without add_vars) executed on ONE persistent 5-variable manager per kind with all audits (canonicity, structure, reference counts, node counts) after every step; afterwards every handle is dropped and gc() must return the manager to its initial node count. Quick tier: saved inputs; thorough tier: 3 campaigns under AddressSanitizer with debug assertions. Non-trivial = history with a gc that removed >=1 node while >=1 handle stayed alive.",
            assumptions: vec!["apply cache holds borrowed (uncounted) edges and is cleared by gc".into()],
            inner_cap: 1 << 14,
        },
        crate::c05x::add_jobs,
    )
}
