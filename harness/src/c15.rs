//! C15 — DDDMP export/import round trips; malformed files are rejected, not crashed on.

use std::collections::HashSet;
use std::io::Write;
use std::time::Instant;

use oxidd::{BooleanFunction, Manager, ManagerRef};
use proptest::prelude::*;
use serde::{Deserialize, Serialize};
use serde_json::json;

use crate::build::*;
use crate::c02::{order_from_keys, tt_from_words};
use crate::c18::{hex, unhex};
use crate::engine::*;
use crate::kinds::*;
use crate::model::*;

#[derive(Clone, Debug, Serialize, Deserialize)]
pub struct DCase {
    pub n: u32,
    pub order_keys: Vec<u16>,
    pub tables: Vec<(Vec<u64>, u8)>,
    /// None = no variable named; Some(names) per variable ("" = unnamed)
    pub var_names: Option<Vec<String>>,
    pub root_names: Option<Vec<String>>,
    pub settings: DdSettings,
}

fn sanitize_char_level(s: &str) -> String {
    s.chars().map(|c| if c.is_ascii_control() || c == ' ' { '_' } else { c }).collect()
}
fn needs_replacement(s: &str) -> bool {
    s.chars().any(|c| c.is_ascii_control() || c == ' ')
}

fn name_strategy() -> impl Strategy<Value = String> {
    prop_oneof![
        6 => "[a-z][a-z0-9]{0,3}",
        2 => Just(String::new()),
        2 => "[a-z]{1,2} [a-z]{1,2}",
        1 => "[a-z]\t[a-z]",
        1 => "_{1,3}[a-z]",
        1 => "[äöλ✓]{1,2}[a-z]",
        1 => "[a-z]_[a-z]",
        1 => "x[0-9]",
        1 => "_x[0-9]",
    ]
}

fn case_strategy() -> impl Strategy<Value = DCase> {
    // 3..8 variables mostly, 9 and 10 (the largest the table model supports) now and then
    prop_oneof![8 => 3u32..=8, 2 => 9u32..=10].prop_flat_map(|n| {
        (
            Just(n),
            proptest::collection::vec(any::<u16>(), 10),
            proptest::collection::vec((proptest::collection::vec(any::<u64>(), if n > 8 { 16 } else { 4 }), 0u8..4), 0..5),
            prop_oneof![2 => Just(None), 5 => proptest::collection::vec(name_strategy(), n as usize).prop_map(Some)],
            any::<bool>(),
            (any::<bool>(), any::<bool>(), any::<bool>(), prop_oneof![3 => Just(String::new()), 3 => "[a-z ]{1,8}", 1 => "[a-z]\n[a-z]"]),
            proptest::collection::vec(name_strategy(), 5),
        )
            .prop_map(|(n, order_keys, tables, var_names, with_root_names, (ascii, v3, strict, diagram_name), rn)| {
                // variable names must be unique among the non-empty ones (manager requirement)
                let var_names = var_names.map(|mut v: Vec<String>| {
                    let mut seen = HashSet::new();
                    for s in v.iter_mut() {
                        if !s.is_empty() && !seen.insert(s.clone()) {
                            *s = String::new();
                        }
                    }
                    v
                });
                let root_names = if with_root_names { Some(rn[..tables.len()].to_vec()) } else { None };
                DCase { n, order_keys, tables, var_names, root_names, settings: DdSettings { ascii, v3, strict, diagram_name } }
            })
    })
}

#[derive(Default)]
pub struct DStat {
    pub checks: u64,
    pub nontrivial: bool,
    pub strict_reported: bool,
    pub file: Vec<u8>,
}

fn setup<K: BoolKind>(c: &DCase) -> Result<(MRef<K>, Vec<u32>, Vec<TT>, Vec<K::F>), String> {
    let order = order_from_keys(c.n, &c.order_keys);
    let mr = K::new_manager(1 << 14, 256, 1);
    match &c.var_names {
        None => {
            mr.with_manager_exclusive(|m| m.add_vars(c.n));
        }
        Some(names) => {
            mr.with_manager_exclusive(|m| m.add_named_vars(names.iter().cloned())).map_err(|e| format!("harness: duplicate names {e:?}"))?;
        }
    }
    K::set_var_order(&mr, &order, true);
    let vs = vars::<K>(&mr, c.n);
    let tts: Vec<TT> = c.tables.iter().map(|(w, d)| tt_from_words(c.n, w, *d)).collect();
    let mut memo = Default::default();
    let fs: Vec<K::F> = tts.iter().map(|t| from_shannon::<K>(&mr, &vs, t, &mut memo)).collect();
    Ok((mr, order, tts, fs))
}

pub fn round_trip<K: BoolKind>(c: &DCase) -> Result<DStat, String> {
    let (mr, order, tts, fs) = setup::<K>(c)?;
    let mut st = DStat::default();
    let roots: Vec<&K::F> = fs.iter().collect();
    let (file, res) = K::dddmp_export(&mr, &c.settings, &roots, c.root_names.as_deref());
    st.file = file.clone();
    st.checks += 1;
    // what must be reported in strict mode
    let all_named = c.var_names.as_ref().map_or(false, |v| v.iter().all(|s| !s.is_empty()));
    let some_named = c.var_names.as_ref().map_or(false, |v| v.iter().any(|s| !s.is_empty()));
    let names_exported = all_named || (!c.settings.strict && some_named);
    let var_repl = names_exported && c.var_names.as_ref().unwrap().iter().any(|s| needs_replacement(s));
    let dd_repl = c.settings.diagram_name.chars().any(|ch| ch.is_ascii_control());
    let root_repl = c.root_names.as_ref().map_or(false, |v| v.iter().any(|s| s.is_empty() || needs_replacement(s)));
    let must_report = c.settings.strict && (var_repl || dd_repl || root_repl);
    match (&res, must_report) {
        (Ok(()), true) => return Err(format!("strict-not-reported: strict export succeeded although a name needs sanitising (var names {:?}, diagram name {:?}, root names {:?})", c.var_names, c.settings.diagram_name, c.root_names)),
        (Err(e), false) => return Err(format!("export-error: export failed unexpectedly: {e}")),
        (Err(_), true) => {
            st.strict_reported = true;
        }
        _ => {}
    }
    // Every file written without an error must be accepted. (Files written with a strict-mode
    // error are "checkpoints": they are checked as well, the exporter completes the file.)
    let (h, imported) = K::dddmp_import(&mr, &file, None).map_err(|e| format!("own-export-rejected: importer rejects the exporter's file (exporter result {res:?}): {e}\n--- file ---\n{}", String::from_utf8_lossy(&file[..file.len().min(600)])))?;
    st.checks += 1;
    if imported.len() != fs.len() || h.num_roots != fs.len() {
        return Err(format!("roots: exported {} roots, imported {}", fs.len(), imported.len()));
    }
    for (i, (a, b)) in imported.iter().zip(&fs).enumerate() {
        st.checks += 1;
        if a != b {
            let got = K::table(a, c.n);
            return Err(format!("roundtrip-same-manager: root {i} ({:?}) re-imported as a different handle (table {got:?})", tts[i]));
        }
    }
    // header metadata
    if h.num_vars != c.n {
        return Err(format!("header-nvars: {} vs {}", h.num_vars, c.n));
    }
    let expected_dd: String = c.settings.diagram_name.chars().map(|ch| if ch.is_ascii_control() { ' ' } else { ch }).collect();
    let got_dd = h.diagram_name.clone().unwrap_or_default();
    if got_dd.trim() != expected_dd.trim() {
        return Err(format!("header-diagram-name: exported {:?}, header has {:?}", c.settings.diagram_name, h.diagram_name));
    }
    // support = variables some root depends on (BDD/BCDD); for ZBDD: variables with a node
    if K::KIND != BKind::Zbdd {
        let supp: Vec<u32> = (0..c.n).filter(|&v| tts.iter().any(|t| t.depends(v))).collect();
        if h.support_vars != supp {
            return Err(format!("header-support: .ids = {:?}, functions depend on {:?}", h.support_vars, supp));
        }
        let pos: Vec<u32> = supp.iter().map(|v| order.iter().position(|x| x == v).unwrap() as u32).collect();
        if h.support_var_to_level != pos {
            return Err(format!("header-permids: {:?}, expected levels {:?}", h.support_var_to_level, pos));
        }
        let mut by_level = supp.clone();
        by_level.sort_by_key(|v| order.iter().position(|x| x == v).unwrap());
        if h.support_var_order != by_level {
            return Err(format!("header-support-order: {:?}, expected {:?}", h.support_var_order, by_level));
        }
    }
    // variable names
    match (&h.var_names, names_exported) {
        (None, false) => {}
        (Some(names), true) => {
            let orig = c.var_names.as_ref().unwrap();
            if names.len() != c.n as usize {
                return Err(format!("header-var-names: {} names for {} variables", names.len(), c.n));
            }
            let uniq: HashSet<&String> = names.iter().collect();
            let in_support = |v: usize| h.support_vars.contains(&(v as u32));
            for (v, name) in names.iter().enumerate() {
                if !c.settings.v3 && !in_support(v) {
                    continue; // format 2.0 carries names per support variable / level only
                }
                if name.is_empty() || needs_replacement(name) {
                    return Err(format!("header-var-names: variable {v} got the name {name:?} (original {:?})", orig[v]));
                }
                let o = &orig[v];
                if !o.is_empty() && !needs_replacement(o) && name != o {
                    return Err(format!("header-var-names: variable {v} was named {o:?}, header has {name:?}"));
                }
                if !o.is_empty() && needs_replacement(o) && *name != sanitize_char_level(o) && !name.ends_with(&sanitize_char_level(o)) {
                    return Err(format!("header-var-names: variable {v} was named {o:?}, documented sanitising gives {:?}, header has {name:?}", sanitize_char_level(o)));
                }
            }
            if c.settings.v3 && uniq.len() != names.len() {
                return Err(format!("header-var-names: sanitised names are not unique: {names:?}"));
            }
        }
        (got, exp) => return Err(format!("header-var-names: names present = {}, expected = {exp} (strict {}, all named {all_named})", got.is_some(), c.settings.strict)),
    }
    match (&h.root_names, &c.root_names) {
        (None, None) => {}
        (None, Some(r)) if r.is_empty() => {}
        (Some(got), Some(exp)) => {
            for (i, (g, e)) in got.iter().zip(exp).enumerate() {
                let want = if e.is_empty() { format!("_f{i}") } else { sanitize_char_level(e) };
                if *g != want {
                    return Err(format!("header-root-names: root {i} named {e:?}, documented sanitising gives {want:?}, header has {g:?}"));
                }
            }
        }
        (g, e) => return Err(format!("header-root-names: header {g:?}, exported {e:?}")),
    }
    // fresh manager with the same variables and a compatible order
    let mr2 = K::new_manager(1 << 14, 256, 1);
    mr2.with_manager_exclusive(|m| m.add_vars(c.n));
    K::set_var_order(&mr2, &h.support_var_order, true);
    let (_, imported2) = K::dddmp_import(&mr2, &file, None).map_err(|e| format!("fresh-import-rejected: {e}"))?;
    for (i, f) in imported2.iter().enumerate() {
        st.checks += 1;
        let got = K::table(f, c.n);
        if got != tts[i] {
            return Err(format!("roundtrip-fresh-manager: root {i} exported as {:?}, imported as {got:?}", tts[i]));
        }
    }
    let handles: Vec<&K::F> = imported2.iter().collect();
    K::audit(&mr2, &handles, true).map_err(|e| format!("audit-after-import: {e}"))?;
    let unused = (0..c.n).any(|v| !tts.iter().any(|t| t.depends(v)));
    let level_ne_var = order.iter().enumerate().any(|(l, &v)| l as u32 != v);
    st.nontrivial = fs.len() >= 2 && unused && level_ne_var;
    Ok(st)
}

// --- malformed input --------------------------------------------------------

/// load + import of arbitrary bytes in a manager with n variables; returns Ok(accepted?)
pub fn malformed_manager<K: BoolKind>(n: u32, order: &[u32]) -> MRef<K> {
    let mr = K::new_manager(1 << 12, 64, 1);
    mr.with_manager_exclusive(|m| m.add_vars(n));
    if order.len() == n as usize {
        K::set_var_order(&mr, order, true);
    }
    mr
}

pub fn import_malformed<K: BoolKind>(mr: &MRef<K>, n: u32, data: &[u8]) -> Result<bool, String> {
    let r = std::panic::catch_unwind(std::panic::AssertUnwindSafe(|| K::dddmp_import(mr, data, None)));
    if std::env::var("VERIF_DEBUG").is_ok() {
        eprintln!("import result: {:?}", r.as_ref().map(|x| x.as_ref().map(|(_, fs)| fs.len()).map_err(|e| e.clone())).map_err(|_| "panic"));
    }
    match r {
        Err(e) => Err(format!("import-panic: {}", panic_msg(&e))),
        Ok(Err(_)) => Ok(false),
        Ok(Ok((_, fs))) => {
            // accepted: the result must be a well-formed diagram
            let handles: Vec<&K::F> = fs.iter().collect();
            K::audit(mr, &handles, true).map_err(|e| format!("malformed-accepted-ill-formed: importer accepted the input but the diagram is ill-formed: {e}"))?;
            for f in &fs {
                let _ = K::table(f, n.min(8));
            }
            Ok(true)
        }
    }
}

fn malformed_batch<K: BoolKind>(n: u32, order: &[u32], inputs: &[Vec<u8>]) -> Vec<Result<bool, String>> {
    let out = isolated(180, |w| {
        limit_address_space(4 << 30);
        // one manager per child: a process must not create thousands of managers (see C16)
        let mr = malformed_manager::<K>(n, order);
        for (i, d) in inputs.iter().enumerate() {
            progress(&json!({"sig": format!("C15/{}/malformed/crash", K::NAME), "input_hex": hex(&d[..d.len().min(20000)]), "n": n, "order": order}).to_string());
            let r = import_malformed::<K>(&mr, n, d);
            if i % 16 == 15 {
                K::gc(&mr);
            }
            let _ = writeln!(w, "{}", json!({"i": i, "ok": r.as_ref().ok(), "err": r.as_ref().err()}));
        }
    });
    let mut res = vec![];
    for l in &out.lines {
        if let Ok(v) = serde_json::from_str::<serde_json::Value>(l) {
            if v.get("i").is_some() {
                res.push(match v["err"].as_str() {
                    Some(e) => Err(e.to_string()),
                    None => Ok(v["ok"].as_bool().unwrap_or(false)),
                });
            }
        }
    }
    if res.len() < inputs.len() {
        res.push(Err(if out.end == End::Timeout { "timeout: importer did not return".to_string() } else { format!("import-abort: child ended {:?} (abort/OOM/segfault) while importing", out.end) }));
    }
    res
}

#[derive(Clone, Debug)]
enum HMut {
    Field(u8, u8), // which header field, which replacement
    Flip(u16, u8),
    Delete(u16, u8),
    Insert(u16, Vec<u8>),
    SwapLines(u16),
    /// mutate a byte of the node section (after ".nodes")
    Body(u16, u8, bool),
    /// ASCII node section: toggle the complement sign of a child reference / replace a child id
    Child(u16, u8, u8),
}

fn hmut_strategy() -> impl Strategy<Value = HMut> {
    prop_oneof![
        5 => (0u8..8, 0u8..7).prop_map(|(f, r)| HMut::Field(f, r)),
        4 => (any::<u16>(), any::<u8>()).prop_map(|(p, b)| HMut::Flip(p, b)),
        2 => (any::<u16>(), any::<u8>()).prop_map(|(p, b)| HMut::Delete(p, b)),
        2 => (any::<u16>(), proptest::collection::vec(any::<u8>(), 1..4)).prop_map(|(p, b)| HMut::Insert(p, b)),
        1 => any::<u16>().prop_map(HMut::SwapLines),
        8 => (any::<u16>(), any::<u8>(), any::<bool>()).prop_map(|(p, b, r)| HMut::Body(p, b, r)),
        6 => (any::<u16>(), any::<u8>(), any::<u8>()).prop_map(|(p, c, v)| HMut::Child(p, c, v)),
    ]
}

fn apply_hmut(data: &[u8], m: &HMut) -> Vec<u8> {
    let mut d = data.to_vec();
    match m {
        HMut::Field(f, r) => {
            let fields = [".nnodes", ".nvars", ".nsuppvars", ".ids", ".permids", ".nroots", ".rootids", ".mode"];
            let key = fields[*f as usize % fields.len()].as_bytes();
            if let Some(pos) = d.windows(key.len()).position(|w| w == key) {
                let end = d[pos..].iter().position(|b| *b == b'\n').map(|e| pos + e).unwrap_or(d.len());
                let old = String::from_utf8_lossy(&d[pos + key.len()..end]).to_string();
                let nums: Vec<&str> = old.split_whitespace().collect();
                let new = match r % 7 {
                    0 => " 0".to_string(),
                    1 => " 4294967295".to_string(),
                    2 => " 18446744073709551615".to_string(),
                    3 => format!(" {}", nums.iter().rev().cloned().collect::<Vec<_>>().join(" ")),
                    4 => format!(" {} {}", nums.join(" "), nums.first().copied().unwrap_or("1")),
                    5 => " -1".to_string(),
                    _ => format!(" {}", nums.iter().skip(1).cloned().collect::<Vec<_>>().join(" ")),
                };
                d.splice(pos + key.len()..end, new.into_bytes());
            }
        }
        HMut::Flip(p, b) => {
            if !d.is_empty() {
                let i = ((*p as usize * d.len()) >> 16).min(d.len() - 1);
                d[i] ^= 1 << (b % 8);
            }
        }
        HMut::Delete(p, n) => {
            if !d.is_empty() {
                let i = ((*p as usize * d.len()) >> 16).min(d.len() - 1);
                let e = (i + 1 + *n as usize % 8).min(d.len());
                d.drain(i..e);
            }
        }
        HMut::Insert(p, bytes) => {
            let i = ((*p as usize * (d.len() + 1)) >> 16).min(d.len());
            d.splice(i..i, bytes.iter().copied());
        }
        HMut::Body(p, b, replace) => {
            let key = b".nodes";
            if let Some(pos) = d.windows(key.len()).position(|w| w == key) {
                let start = pos + key.len() + 1;
                if start < d.len() {
                    let i = start + ((*p as usize * (d.len() - start)) >> 16);
                    if *replace {
                        d[i] = *b;
                    } else {
                        d[i] ^= 1 << (b % 8);
                    }
                }
            }
        }
        HMut::Child(p, c, v) => {
            // node lines are "<id> <var|terminal> <then> <else>" between ".nodes" and ".end"
            let text = String::from_utf8_lossy(&d).to_string();
            let mut lines: Vec<String> = text.split('\n').map(|l| l.to_string()).collect();
            if let (Some(a), Some(b)) = (lines.iter().position(|l| l.starts_with(".nodes")), lines.iter().position(|l| l.starts_with(".end"))) {
                if b > a + 1 {
                    let i = a + 1 + ((*p as usize * (b - a - 1)) >> 16);
                    let mut f: Vec<String> = lines[i].split(' ').map(|x| x.to_string()).collect();
                    if f.len() >= 4 {
                        let k = 2 + (*c as usize % 2);
                        f[k] = match v % 4 {
                            0 | 1 => {
                                if let Some(x) = f[k].strip_prefix('-') { x.to_string() } else { format!("-{}", f[k]) }
                            }
                            2 => format!("{}", 1 + (*v as usize / 4) % (b - a - 1)),
                            _ => format!("-{}", 1 + (*v as usize / 4) % (b - a - 1)),
                        };
                        lines[i] = f.join(" ");
                        d = lines.join("\n").into_bytes();
                    }
                }
            }
        }
        HMut::SwapLines(p) => {
            let mut lines: Vec<Vec<u8>> = d.split(|b| *b == b'\n').map(|l| l.to_vec()).collect();
            if lines.len() >= 3 {
                let i = ((*p as usize) * (lines.len() - 1)) >> 16;
                lines.swap(i, i + 1);
                d = lines.join(&b'\n');
            }
        }
    }
    d
}

/// base files for the malformed-input part: a few valid exports per kind
pub fn base_files<K: BoolKind>(seed: u64) -> Vec<(u32, Vec<u32>, Vec<u8>)> {
    let mut v = vec![];
    for i in 0..6u64 {
        let s = mix(seed ^ i);
        let n = 3 + (s % 4) as u32;
        let c = DCase {
            n,
            order_keys: (0..8).map(|k| mix(s ^ k) as u16).collect(),
            tables: (0..(1 + s % 3)).map(|k| ((0..4).map(|j| mix(s ^ (k * 16 + j))).collect(), (s >> (8 + k)) as u8 % 4)).collect(),
            var_names: if i % 2 == 0 { Some((0..n).map(|v| format!("v{v}")).collect()) } else { None },
            root_names: if i % 3 == 0 { Some((0..(1 + s % 3)).map(|k| format!("f{k}")).collect()) } else { None },
            settings: DdSettings { ascii: i % 2 == 0, v3: i % 3 == 1, strict: true, diagram_name: if i % 2 == 1 { "dd".into() } else { String::new() } },
        };
        if let Ok((mr, order, _, fs)) = setup::<K>(&c) {
            let roots: Vec<&K::F> = fs.iter().collect();
            let (file, res) = K::dddmp_export(&mr, &c.settings, &roots, c.root_names.as_deref());
            if res.is_ok() {
                v.push((n, order, file));
            }
        }
    }
    v
}

fn malformed_job<K: BoolKind>(seed: u64, cases: u32, rep: &mut Report) {
    // base files are produced in a child (they need a manager)
    let bases: Vec<(u32, Vec<u32>, Vec<u8>)> = {
        let out = isolated(60, |w| {
            for (n, o, f) in base_files::<K>(seed) {
                let _ = writeln!(w, "{}", json!({"n": n, "order": o, "file": hex(&f)}));
            }
            // files written for ANOTHER kind of diagram (other terminal names, complement
            // edges, binary mode where this kind only writes ASCII): valid DDDMP, possibly
            // not importable here - it must be rejected or imported, never crash
            if K::KIND != BKind::Bcdd {
                for (n, o, f) in base_files::<BcddK>(seed ^ 0xf0) {
                    let _ = writeln!(w, "{}", json!({"n": n, "order": o, "file": hex(&f)}));
                }
            }
            if K::KIND != BKind::Zbdd {
                for (n, o, f) in base_files::<ZbddK>(seed ^ 0xf1).into_iter().take(3) {
                    let _ = writeln!(w, "{}", json!({"n": n, "order": o, "file": hex(&f)}));
                }
            }
            if K::KIND != BKind::Bdd {
                for (n, o, f) in base_files::<BddK>(seed ^ 0xf2).into_iter().take(3) {
                    let _ = writeln!(w, "{}", json!({"n": n, "order": o, "file": hex(&f)}));
                }
            }
        });
        out.lines.iter().filter_map(|l| serde_json::from_str::<serde_json::Value>(l).ok()).filter(|v| v.get("file").is_some()).map(|v| (v["n"].as_u64().unwrap() as u32, serde_json::from_value(v["order"].clone()).unwrap(), unhex(v["file"].as_str().unwrap()))).collect()
    };
    if bases.is_empty() {
        rep.inconclusive.push(format!("{}: no base files", K::NAME));
        return;
    }
    let exclude_huge = known("C15", "header-sized-allocation");
    // every truncation point of every base file
    for (n, order, file) in &bases {
        let inputs: Vec<Vec<u8>> = (0..=file.len()).map(|k| file[..k].to_vec()).collect();
        let rs = malformed_batch::<K>(*n, order, &inputs);
        for (i, r) in rs.iter().enumerate() {
            rep.evaluations += 1;
            match r {
                Ok(_) => {}
                Err(m) if m.starts_with("timeout") => rep.inconclusive.push(m.clone()),
                Err(m) => rep.viol(format!("C15/{}/{}", K::NAME, crate::hrun::category(m)), format!("{m} [file truncated to {} of {} bytes]", i.min(file.len()), file.len()), json!({"kind": K::NAME, "n": n, "order": order, "input_hex": hex(&inputs[i.min(inputs.len() - 1)])})),
            }
        }
        rep.class_n(&format!("{}.truncations", K::NAME), inputs.len() as u64);
        rep.nontrivial += inputs.len() as u64 / 3;
    }
    // mutations
    let strat = (0usize..bases.len(), proptest::collection::vec(hmut_strategy(), 1..4));
    let mut r = crate::pt::runner(seed, cases);
    use proptest::strategy::ValueTree;
    let mut per_base: Vec<Vec<Vec<u8>>> = vec![vec![]; bases.len()];
    let mut n_in = 0u64;
    for _ in 0..cases {
        let (bi, ms) = strat.new_tree(&mut r).unwrap().current();
        let mut d = bases[bi].2.clone();
        for m in &ms {
            d = apply_hmut(&d, m);
        }
        if exclude_huge && crate::c18::huge_count(&d[..d.len().min(400)]) {
            rep.excluded_by_known_finding += 1;
            continue;
        }
        if rep.samples.len() < 2 {
            rep.sample(json!({"suite": "dddmp mutation", "kind": K::NAME, "mutations": format!("{ms:?}"), "head": String::from_utf8_lossy(&d[..d.len().min(200)])}));
        }
        per_base[bi].push(d);
        n_in += 1;
    }
    let mut accepted = 0u64;
    for (bi, inputs) in per_base.iter().enumerate() {
        for chunk in inputs.chunks(300) {
            let rs = malformed_batch::<K>(bases[bi].0, &bases[bi].1, chunk);
            for (i, r) in rs.iter().enumerate() {
                rep.evaluations += 1;
                match r {
                    Ok(a) => {
                        if *a {
                            accepted += 1;
                        }
                    }
                    Err(m) if m.starts_with("timeout") => rep.inconclusive.push(m.clone()),
                    Err(m) => {
                        let d = &chunk[i.min(chunk.len() - 1)];
                        let sig = if crate::c18::huge_count(&d[..d.len().min(400)]) { "header-sized-allocation".to_string() } else { format!("C15/{}/{}", K::NAME, crate::hrun::category(m)) };
                        rep.viol(sig, m.clone(), json!({"kind": K::NAME, "n": bases[bi].0, "order": bases[bi].1, "input_hex": hex(d), "head": String::from_utf8_lossy(&d[..d.len().min(300)])}));
                    }
                }
            }
        }
    }
    rep.nontrivial += accepted;
    rep.class_n(&format!("{}.mutated_inputs", K::NAME), n_in);
    rep.class_n(&format!("{}.mutated_inputs_accepted", K::NAME), accepted);
}

fn roundtrip_job<K: BoolKind>(seed: u64, cases: u32, rep: &mut Report) {
    let strat = case_strategy();
    let mut nt = 0u64;
    let mut evals = 0u64;
    let mut strict_rep = 0u64;
    let mut samples = vec![];
    let out = crate::pt::run2(
        seed,
        cases,
        &strat,
        |_| {},
        |c, r: &Result<(bool, bool, u64), String>| {
            if let Ok((n, s, e)) = r {
                evals += e;
                if *n {
                    nt += 1;
                    if samples.len() < 2 {
                        samples.push(json!({"kind": K::NAME, "case": c}));
                    }
                }
                if *s {
                    strict_rep += 1;
                }
            }
        },
        |c| {
            // in a forked child: the case creates managers
            let out = isolated(120, |w| {
                progress(&json!({"sig": format!("C15/{}/roundtrip/crash", K::NAME), "case": c}).to_string());
                let r = round_trip::<K>(c);
                let _ = writeln!(w, "{}", json!({"ok": r.as_ref().ok().map(|s| (s.nontrivial, s.strict_reported, s.checks)), "err": r.as_ref().err()}));
            });
            match out.end {
                End::Exit(0) => {
                    let v: serde_json::Value = out.lines.iter().filter_map(|l| serde_json::from_str(l).ok()).next().unwrap_or(json!({"err": "no verdict"}));
                    match v["err"].as_str() {
                        Some(e) => Err(e.to_string()),
                        None => Ok((v["ok"][0].as_bool().unwrap_or(false), v["ok"][1].as_bool().unwrap_or(false), v["ok"][2].as_u64().unwrap_or(0))),
                    }
                }
                End::Timeout => Ok((false, false, 0)),
                e => Err(format!("crash: child ended {e:?}: {}", out.lines.join(" | "))),
            }
        },
    );
    rep.evaluations += evals;
    rep.nontrivial += nt;
    rep.class_n(&format!("{}.roundtrip_cases", K::NAME), out.cases);
    rep.class_n(&format!("{}.strict_mode_reports", K::NAME), strict_rep);
    for s in samples {
        rep.sample(s);
    }
    if let Some((c, msg)) = out.failure {
        rep.viol(format!("C15/{}/{}", K::NAME, crate::hrun::category(&msg)), msg, json!({"kind": K::NAME, "case": c}));
    }
}

pub fn run(cfg: &Cfg) -> i32 {
    let start = Instant::now();
    if let Some(path) = cfg.replay.as_ref().filter(|p| replay_case_is(p, |c| c["vcase"].is_object())) {
        let v: serde_json::Value = serde_json::from_str(&std::fs::read_to_string(path).expect("replay file")).expect("json");
        if let Some(rc) = crate::c15x::replay(path, &v["case"]) {
            return rc;
        }
    }
    if let Some(path) = cfg.replay.as_ref().filter(|p| replay_case_is(p, |c| c["case"].is_object() || c["input_hex"].is_string())) {
        let v: serde_json::Value = serde_json::from_str(&std::fs::read_to_string(path).expect("replay file")).expect("json");
        let case = &v["case"];
        let kind = case["kind"].as_str().unwrap_or("bdd").to_string();
        let r: Result<(), String> = if case.get("case").is_some() {
            let c: DCase = serde_json::from_value(case["case"].clone()).expect("case");
            let out = isolated(120, |w| {
                let r = match kind.as_str() {
                    "bdd" => round_trip::<BddK>(&c).map(|_| ()),
                    "bcdd" => round_trip::<BcddK>(&c).map(|_| ()),
                    _ => round_trip::<ZbddK>(&c).map(|_| ()),
                };
                let _ = writeln!(w, "{}", json!({"err": r.err()}));
            });
            match out.lines.iter().filter_map(|l| serde_json::from_str::<serde_json::Value>(l).ok()).next() {
                Some(v) => v["err"].as_str().map_or(Ok(()), |e| Err(e.to_string())),
                None => Err(format!("crash: {:?}", out.end)),
            }
        } else {
            let n = case["n"].as_u64().unwrap_or(3) as u32;
            let order: Vec<u32> = serde_json::from_value(case["order"].clone()).unwrap_or_default();
            let d = unhex(case["input_hex"].as_str().unwrap_or(""));
            let r = match kind.as_str() {
                "bdd" => malformed_batch::<BddK>(n, &order, &[d]),
                "bcdd" => malformed_batch::<BcddK>(n, &order, &[d]),
                _ => malformed_batch::<ZbddK>(n, &order, &[d]),
            };
            r.into_iter().next().unwrap().map(|_| ())
        };
        return match r {
            Ok(_) => {
                println!("replay: case passes");
                0
            }
            Err(m) => {
                let d = unhex(case["input_hex"].as_str().unwrap_or(""));
                if known("C15", "header-sized-allocation") && crate::c18::huge_count(&d[..d.len().min(400)]) {
                    println!("KNOWN-FINDING: property=C15 header-sized-allocation: {m}");
                    0
                } else {
                    println!("VIOLATION property=C15 replay={path}\n  what: {m}");
                    1
                }
            }
        };
    }
    let mut jobs: Vec<Box<dyn FnMut(&mut dyn Write) + '_>> = vec![];
    let mut names = vec![];
    macro_rules! add_kind {
        ($K:ty, $salt:expr) => {
            for sh in 0..cfg.t(2, 5) {
                let seed = mix(cfg.seed ^ (0xc15_000 + $salt * 100 + sh as u64));
                let cases = cfg.t(3000, 30000);
                names.push(format!("roundtrip/{}/{}", <$K>::NAME, sh));
                jobs.push(Box::new(move |w: &mut dyn Write| {
                    let mut rep = Report::default();
                    roundtrip_job::<$K>(seed, cases, &mut rep);
                    rep.emit(w);
                }));
            }
            for sh in 0..cfg.t(2, 4) {
                let seed = mix(cfg.seed ^ (0xc15_800 + $salt * 100 + sh as u64));
                let cases = cfg.t(16000, 200000);
                names.push(format!("malformed/{}/{}", <$K>::NAME, sh));
                jobs.push(Box::new(move |w: &mut dyn Write| {
                    let mut rep = Report::default();
                    malformed_job::<$K>(seed, cases, &mut rep);
                    rep.emit(w);
                }));
            }
        };
    }
    add_kind!(BddK, 1);
    add_kind!(BcddK, 2);
    add_kind!(ZbddK, 3);
    names.push("known-finding-probe".into());
    jobs.push(Box::new(|w: &mut dyn Write| {
        let mut rep = Report::default();
        let file = b".ver DDDMP-2.0\n.mode A\n.varinfo 4\n.nnodes 3\n.nvars 4294967295\n.nsuppvars 1\n.ids 0\n.permids 0\n.nroots 1\n.rootids 3\n.nodes\n1 F 0 0\n2 T 0 0\n3 0 2 1\n.end\n".to_vec();
        let r = malformed_batch::<BddK>(3, &[0, 1, 2], std::slice::from_ref(&file)).pop().unwrap();
        rep.evaluations += 1;
        rep.nontrivial += 2;
        if let Err(m) = r {
            if !m.starts_with("timeout") {
                rep.viol("header-sized-allocation", format!("{m} ['.nvars 4294967295' in a 150-byte file]"), json!({"kind": "bdd", "n": 3, "order": [0, 1, 2], "input_hex": hex(&file)}));
            }
        }
        rep.emit(w);
    }));
    crate::c15x::add_jobs(cfg, &mut jobs, &mut names);
    crate::fzrun::add_jobs(cfg, "C15", &mut jobs, &mut names);
    let outs = run_jobs(&mut jobs, cfg.par, cfg.t(900, 7200));
    drop(jobs);
    let mut total = Report::default();
    merge_jobs(&mut total, outs, &names);
    conclude(
        cfg,
        &total,
        Meta {
            level: "exploration",
            rule: "round trips (proptest): 0..4 random functions over 3..10 variables under a random order as roots (incl. unused variables and shared nodes), BDD/BCDD/ZBDD, settings ASCII/binary x format 2.0/3.0 x strict on/off x diagram name (plain/with spaces/with control characters) x variable names (none, all, some; names with spaces, tabs, unicode, leading underscores, empty, names colliding with the sanitised form) x root names likewise. Checked: strict mode reports exactly when a name needs sanitising; every file the exporter completes is accepted by DumpHeader::load + import; in the same manager the imported handles == the originals; in a fresh manager whose order was set from support_var_order the imported tables equal the exported ones and the audit passes; header metadata (nvars, support ids, permids, support order, diagram name, variable names sanitised as documented, root names with _f{i}) equals what was exported. MTBDD<I64> / MTBDD<F64> round trips (1..3 value tables over 2..4 variables under random orders, format 2.0/3.0, named/unnamed variables; the exporter falls back to ASCII): same-manager handle equality, fresh-manager table equality + audit; TDD: export only (the importer rejects ternary nodes at compile time): the export must succeed and its header must load with the right metadata. Malformed input: every truncation point of 6 valid files per kind plus 6..9 valid files written for the OTHER kinds (other terminal names, complemented edges, binary mode for kinds that only write ASCII) and seeded mutations (header field replaced by 0 / 2^32-1 / 2^64-1 / reversed / duplicated / negative / shortened, bit flips, deletions, insertions, swapped lines, complement sign of a child reference toggled, child id replaced) imported in forked children with a 4 GiB address-space limit: a panic, abort, segfault or OOM is a violation, an accepted input must yield a well-formed diagram (structure + reference-count audit). Non-trivial = round trip with >= 2 roots, an unused variable and level != variable; truncated/mutated input reaching the importer. COVERAGE-GUIDED FUZZING: the libFuzzer targets of this property (harness/fuzz, entry points and decoders in fz.rs, the same oracle as above, built with AddressSanitizer, debug assertions and overflow checks) - quick tier: every committed seed and regression input is replayed through the in-process entry point; thorough tier: 3 libFuzzer campaigns per target with -runs=N -seed=f(VERIF_SEED) on fresh corpora initialised from the seeds (evaluations = executions, non-trivial = inputs kept for new coverage).",
            assumptions: vec!["for a mutated file there is no reference for what it should mean: the claim checked is 'rejected, or a well-formed diagram'".into(), "format 2.0 files carry names for support variables only; names of unused variables are checked for 3.0".into()],
            extra: json!({}),
        },
        start,
    )
}
