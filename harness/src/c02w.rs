//! eval() on wide managers (9..200 variables, random orders, supports that touch the block
//! boundaries of the level-indexed value sets) and with partial / repeating argument lists.
//! Bool kinds are registered with C02, MTBDD with C10, TDD with C11.
//!
//! Oracle: the function is built from <= 5 chosen variables by a known truth table (bool kinds) or
//! a known expression (valued kinds); eval must return the table / expression value under the
//! chosen variables' values. The documentation of eval() defines the semantics of the
//! argument list: order irrelevant, the last value of a repeated variable counts, a decision
//! variable without a value is `false` (`unknown` for TDDs).

use oxidd::BooleanFunction;
use serde_json::json;

use crate::build::*;
use crate::engine::*;
use crate::hrun::category;
use crate::kinds::*;
use crate::model::*;
use crate::vhist::vmk_manager;
use crate::vkinds::*;

const WIDTHS: [u32; 9] = [63, 64, 65, 127, 128, 129, 200, 17, 33];
const LEVELS: [u32; 10] = [0, 7, 8, 15, 16, 31, 32, 63, 64, 127];

struct Geo {
    n: u32,
    order: Vec<u32>,
    support: Vec<u32>,
}

/// width, random order, support (incl. the bottom level and block-boundary levels)
fn geometry(s: &mut u64, kmax: usize) -> Geo {
    *s = mix(*s);
    let n = if *s % 3 == 0 { WIDTHS[(*s >> 8) as usize % WIDTHS.len()] } else { 9 + (*s >> 8) as u32 % 32 };
    let mut order: Vec<u32> = (0..n).collect();
    for i in (1..n as usize).rev() {
        *s = mix(*s);
        order.swap(i, (*s % (i as u64 + 1)) as usize);
    }
    *s = mix(*s);
    let k = 1 + (*s % kmax as u64) as usize;
    let mut support: Vec<u32> = vec![];
    let mut push = |v: u32, support: &mut Vec<u32>| {
        if !support.contains(&v) && support.len() < k {
            support.push(v);
        }
    };
    // variable on the bottom level, on a block-boundary level, the variable with the largest number
    *s = mix(*s);
    if *s & 1 == 1 {
        push(order[n as usize - 1], &mut support);
    }
    if *s & 2 == 2 {
        let l = LEVELS[(*s >> 8) as usize % LEVELS.len()];
        if l < n {
            push(order[l as usize], &mut support);
        }
    }
    if *s & 4 == 4 {
        push(n - 1, &mut support);
    }
    while support.len() < k {
        *s = mix(*s);
        push((*s % n as u64) as u32, &mut support);
    }
    Geo { n, order, support }
}

/// argument lists: (name, args as (var, digit), effective digit per support variable)
fn arg_lists(s: &mut u64, g: &Geo, base: usize, missing: usize) -> Vec<(&'static str, Vec<(u32, usize)>, Vec<usize>)> {
    let mut out = vec![];
    for round in 0..8 {
        *s = mix(*s);
        let mut vals: Vec<usize> = (0..g.n).map(|v| (mix(*s ^ v as u64) % base as u64) as usize).collect();
        let mut args: Vec<(u32, usize)> = (0..g.n).map(|v| (v, vals[v as usize])).collect();
        // shuffle: the order is irrelevant
        for i in (1..args.len()).rev() {
            *s = mix(*s);
            args.swap(i, (*s % (i as u64 + 1)) as usize);
        }
        let name;
        match round % 4 {
            0 => name = "complete",
            1 => {
                // repeated variable: the last value counts
                name = "repeated";
                let v = g.support[(*s >> 20) as usize % g.support.len()];
                let other = (vals[v as usize] + 1) % base;
                args.insert(0, (v, other));
                let v2 = g.support[(*s >> 30) as usize % g.support.len()];
                let newval = (vals[v2 as usize] + 1 + (*s >> 40) as usize % (base - 1)) % base;
                args.push((v2, newval));
                vals[v2 as usize] = newval;
            }
            2 => {
                // a support variable without a value
                name = "missing-support-variable";
                let v = g.support[(*s >> 20) as usize % g.support.len()];
                args.retain(|a| a.0 != v);
                vals[v as usize] = missing;
            }
            _ => {
                // only (some of) the support variables have values
                name = "support-only";
                args.retain(|a| g.support.contains(&a.0));
                if (*s >> 24) & 1 == 1 && g.support.len() > 1 {
                    let v = g.support[0];
                    args.retain(|a| a.0 != v);
                    vals[v as usize] = missing;
                }
            }
        }
        let eff = g.support.iter().map(|&v| vals[v as usize]).collect();
        out.push((name, args, eff));
    }
    out
}

pub fn wide_bool<K: BoolKind>(seed: u64, cases: u32, rep: &mut Report) {
    let mut s = seed;
    for c in 0..cases {
        let g = geometry(&mut s, 5);
        s = mix(s);
        let k = g.support.len() as u32;
        let tt = TT::from_u64(k, mix(s) | 1 << (s % (1 << k))); // not constant false
        let ctx = json!({"kind": K::NAME, "n": g.n, "order": g.order, "support": g.support, "table": format!("{tt:?}")});
        progress(&json!({"sig": format!("C02/{}/wide-eval/crash", K::NAME), "ctx": ctx}).to_string());
        let mr = mk_manager::<K>(g.n, &g.order, 1 << 17, 1 << 8, 1);
        let vs = vars::<K>(&mr, g.n);
        let sup: Vec<K::F> = g.support.iter().map(|&v| vs[v as usize].clone()).collect();
        let f = from_shannon::<K>(&mr, &sup, &tt, &mut Default::default());
        let mut bad = None;
        for (name, args, eff) in arg_lists(&mut s, &g, 2, 0) {
            rep.evaluations += 1;
            let idx = eff.iter().enumerate().fold(0usize, |a, (i, d)| a | (*d << i));
            let exp = tt.get(idx);
            let got = f.eval(args.iter().map(|(v, d)| (*v, *d == 1)));
            if got != exp {
                bad = Some(format!("wide-eval-{name}: eval = {got}, the table gives {exp} for support values {eff:?} ({} of {} variables have a value; documented: order irrelevant, last value counts, variables without a value are false)", args.len(), g.n));
                break;
            }
            rep.class(&format!("{}.wide_eval.{name}", K::NAME));
        }
        match bad {
            Some(m) => rep.viol(format!("C02/{}/{}", K::NAME, category(&m)), m, ctx.clone()),
            None => {
                if g.n > 16 {
                    rep.nontrivial += 1;
                }
            }
        }
        if c == 0 {
            rep.sample(json!({"suite": "wide eval", "ctx": ctx}));
        }
    }
}

#[derive(Clone, Debug)]
enum Ex {
    Var(usize),
    Bin(usize, Box<Ex>, Box<Ex>),
}

fn gen_ex(s: &mut u64, k: usize, nbins: usize, depth: u32) -> Ex {
    *s = mix(*s);
    if depth == 0 || *s % 4 == 0 {
        Ex::Var((*s >> 8) as usize % k)
    } else {
        let op = (*s >> 8) as usize % nbins;
        Ex::Bin(op, Box::new(gen_ex(s, k, nbins, depth - 1)), Box::new(gen_ex(s, k, nbins, depth - 1)))
    }
}

fn build_ex<K: VKind>(e: &Ex, sup: &[K::F]) -> Result<K::F, String> {
    Ok(match e {
        Ex::Var(i) => sup[*i].clone(),
        Ex::Bin(o, a, b) => K::bin(*o, &build_ex::<K>(a, sup)?, &build_ex::<K>(b, sup)?)?,
    })
}

fn eval_ex<K: VKind>(e: &Ex, vals: &[K::V]) -> K::V {
    match e {
        Ex::Var(i) => vals[*i].clone(),
        Ex::Bin(o, a, b) => K::bin_model(*o, &eval_ex::<K>(a, vals), &eval_ex::<K>(b, vals)),
    }
}

pub fn wide_val<K: VKind>(prop: &str, seed: u64, cases: u32, rep: &mut Report)
where
    K::V: PartialEq + std::fmt::Debug,
{
    let mut s = seed;
    for c in 0..cases {
        let g = geometry(&mut s, 4);
        let e = gen_ex(&mut s, g.support.len(), K::bin_names().len(), 3);
        let ctx = json!({"kind": K::NAME, "n": g.n, "order": g.order, "support": g.support, "expression": format!("{e:?}"), "operators": K::bin_names()});
        progress(&json!({"sig": format!("{prop}/{}/wide-eval/crash", K::NAME), "ctx": ctx}).to_string());
        let mr = vmk_manager::<K>(g.n, &g.order, 1 << 8, 1);
        let mut bad = None;
        let built = (|| -> Result<K::F, String> {
            let sup: Vec<K::F> = g.support.iter().map(|&v| K::var(&mr, v)).collect::<Result<_, _>>()?;
            build_ex::<K>(&e, &sup)
        })();
        let Ok(f) = built else { continue };
        for (name, args, eff) in arg_lists(&mut s, &g, K::BASE, K::MISSING_DIGIT) {
            rep.evaluations += 1;
            let vals: Vec<K::V> = eff.iter().map(|d| K::var_value(*d)).collect();
            let exp = eval_ex::<K>(&e, &vals);
            let got = K::eval_args(&f, &args);
            if got != exp {
                bad = Some(format!("wide-eval-{name}: eval = {got:?}, the expression gives {exp:?} for support values {vals:?} ({} of {} variables have a value; documented: order irrelevant, last value counts, variables without a value are {})", args.len(), g.n, if K::IS_TDD { "unknown" } else { "false" }));
                break;
            }
            rep.class(&format!("{}.wide_eval.{name}", K::NAME));
        }
        match bad {
            Some(m) => rep.viol(format!("{prop}/{}/{}", K::NAME, category(&m)), m, ctx.clone()),
            None => {
                if g.n > 16 {
                    rep.nontrivial += 1;
                }
            }
        }
        if c == 0 {
            rep.sample(json!({"suite": "wide eval", "ctx": ctx}));
        }
    }
}
