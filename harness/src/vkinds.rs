//! Adapters for the value-table kinds: MTBDD<I64>, MTBDD<F64>, TDD.

use std::collections::HashMap;
use std::fmt::Debug;
use std::hash::Hash;

use oxidd::mtbdd::terminal::{F64, I64};
use oxidd::{Function, HasLevel, InnerNode, Manager, ManagerRef, Node, PseudoBooleanFunction, TVLFunction, VarNo};
use oxidd_core::function::NumberBase;
use oxidd_rules_tdd::TDDTerminal;

use crate::kinds::{AuditInfo, Sem, audit};
use crate::vmodel::*;

pub type VMRef<K> = <<K as VKind>::F as Function>::ManagerRef;

/// Independent interpreter for BDD-like (untagged) diagrams of any arity.
/// `digits[var]` = value of the variable; child index = arity-1-digit.
pub fn interp_val<M: Manager, V>(m: &M, root: &M::Edge, digits: &[usize], arity: usize, term: &impl Fn(&M::Terminal) -> V) -> V
where
    M::InnerNode: HasLevel,
{
    use oxidd::Edge;
    use std::borrow::Borrow;
    let nlev = m.num_levels();
    let mut expect = 0u32;
    let mut cur = root.borrowed();
    let mut steps = 0;
    loop {
        steps += 1;
        assert!(steps <= nlev + 2, "interpreter: path longer than the number of levels");
        match m.get_node(&*cur) {
            Node::Inner(node) => {
                let l = node.level();
                assert!(l < nlev && l >= expect, "interpreter: level {l} not below parent (expected >= {expect})");
                let v = m.level_to_var(l);
                let next = node.child(arity - 1 - digits[v as usize]);
                expect = l + 1;
                cur = unsafe { std::mem::transmute(next) };
            }
            Node::Terminal(t) => return term(t.borrow()),
        }
    }
}

pub trait VKind: 'static {
    const NAME: &'static str;
    const BASE: usize;
    const IS_TDD: bool;
    type V: Clone + Eq + Hash + Debug + serde::Serialize + Send + Sync;
    type F: Function + Send + Sync;
    fn new_manager(inner: usize, terminals: usize, cache: usize, threads: u32) -> VMRef<Self>;
    fn palette() -> Vec<Self::V>;
    fn constant(mr: &VMRef<Self>, v: &Self::V) -> Result<Self::F, String>;
    fn var(mr: &VMRef<Self>, v: VarNo) -> Result<Self::F, String>;
    /// value table of the variable function (MTBDD: 0/1; TDD: identity)
    fn var_value(d: usize) -> Self::V;
    fn bin_names() -> &'static [&'static str];
    fn bin(i: usize, a: &Self::F, b: &Self::F) -> Result<Self::F, String>;
    fn bin_model(i: usize, a: &Self::V, b: &Self::V) -> Self::V;
    fn not(a: &Self::F) -> Option<Result<Self::F, String>>;
    fn not_model(a: &Self::V) -> Self::V;
    fn ite(c: &Self::F, t: &Self::F, e: &Self::F) -> Result<Self::F, String>;
    fn ite_model(c: &Self::V, t: &Self::V, e: &Self::V) -> Self::V;
    /// may `c` appear as a value of an ite condition?
    fn cond_ok(c: &Self::V) -> bool;
    /// restrict w.r.t. a cube given as a handle (MTBDD only)
    fn restrict(f: &Self::F, cube: &Self::F) -> Option<Result<Self::F, String>>;
    fn interp(f: &Self::F, digits: &[usize]) -> Self::V;
    fn eval(f: &Self::F, digits: &[usize]) -> Self::V;
    /// eval with an explicit (possibly partial, possibly repeating) argument list
    fn eval_args(f: &Self::F, args: &[(VarNo, usize)]) -> Self::V;
    /// the digit eval() documents for a decision variable without a value in `args`
    const MISSING_DIGIT: usize;
    fn audit(mr: &VMRef<Self>, handles: &[&Self::F], check_rc: bool) -> Result<AuditInfo, String>;
    fn set_var_order(mr: &VMRef<Self>, order: &[VarNo], seq: bool);
    fn root_level(f: &Self::F) -> Option<u32>;
    /// cofactors in child order (true[/unknown]/false); TDD only (MTBDD has no cofactor API)
    fn cofactors(f: &Self::F) -> Option<Option<Vec<Self::F>>>;
    fn dump(mr: &VMRef<Self>) -> String;
    fn order(mr: &VMRef<Self>) -> Vec<u32> {
        mr.with_manager_shared(|m| (0..m.num_levels()).map(|l| m.level_to_var(l)).collect())
    }
    fn gc(mr: &VMRef<Self>) -> usize {
        mr.with_manager_shared(|m| m.gc())
    }
    fn num_inner_nodes(mr: &VMRef<Self>) -> usize {
        mr.with_manager_shared(|m| m.num_inner_nodes())
    }
    fn num_terminals(mr: &VMRef<Self>) -> usize {
        mr.with_manager_shared(|m| m.num_terminals())
    }
    fn add_vars(mr: &VMRef<Self>, k: u32) -> std::ops::Range<u32> {
        mr.with_manager_exclusive(|m| m.add_vars(k))
    }
    fn table(f: &Self::F, n: u32) -> VT<Self::V> {
        let base = Self::BASE;
        VT::from_fn(n, base, |i| {
            let digits: Vec<usize> = (0..n).map(|v| (i / ipow(base, v)) % base).collect();
            Self::interp(f, &digits)
        })
    }
}

fn oom<T>(r: oxidd::util::AllocResult<T>) -> Result<T, String> {
    r.map_err(|_| "oom".to_string())
}

// --- MTBDD ------------------------------------------------------------------

pub fn ri_to(v: &RI) -> I64 {
    match v {
        RI::NaN => I64::NaN,
        RI::NInf => I64::MinusInf,
        RI::PInf => I64::PlusInf,
        RI::Num(n) => I64::Num(*n),
    }
}
pub fn ri_from(v: &I64) -> RI {
    match v {
        I64::NaN => RI::NaN,
        I64::MinusInf => RI::NInf,
        I64::PlusInf => RI::PInf,
        I64::Num(n) => RI::Num(*n),
    }
}
pub fn rf_to(v: &RF) -> F64 {
    F64::from(v.get())
}
pub fn rf_from(v: &F64) -> RF {
    // do not normalise here: a non-normalised value inside the library must be visible
    RF(f64::from(*v).to_bits())
}

pub const MT_BINS: [&str; 6] = ["add", "sub", "mul", "div", "min", "max"];

macro_rules! mt_kind {
    ($name:ident, $sname:expr, $T:ty, $V:ty, $to:ident, $from:ident, $palette:expr, $model:expr, $zero:expr, $one:expr) => {
        pub struct $name;
        impl VKind for $name {
            const NAME: &'static str = $sname;
            const BASE: usize = 2;
            const IS_TDD: bool = false;
            type V = $V;
            type F = oxidd::mtbdd::MTBDDFunction<$T>;
            fn new_manager(inner: usize, terminals: usize, cache: usize, threads: u32) -> VMRef<Self> {
                oxidd::mtbdd::new_manager::<$T>(inner, terminals, cache, threads)
            }
            fn palette() -> Vec<$V> {
                $palette
            }
            fn constant(mr: &VMRef<Self>, v: &$V) -> Result<Self::F, String> {
                mr.with_manager_shared(|m| oom(Self::F::constant(m, $to(v))))
            }
            fn var(mr: &VMRef<Self>, v: VarNo) -> Result<Self::F, String> {
                mr.with_manager_shared(|m| oom(Self::F::var(m, v)))
            }
            fn var_value(d: usize) -> $V {
                if d == 1 { $one } else { $zero }
            }
            fn bin_names() -> &'static [&'static str] {
                &MT_BINS
            }
            fn bin(i: usize, a: &Self::F, b: &Self::F) -> Result<Self::F, String> {
                oom(match i {
                    0 => a.add(b),
                    1 => a.sub(b),
                    2 => a.mul(b),
                    3 => a.div(b),
                    4 => PseudoBooleanFunction::min(a, b),
                    _ => PseudoBooleanFunction::max(a, b),
                })
            }
            fn bin_model(i: usize, a: &$V, b: &$V) -> $V {
                $model(i, a, b)
            }
            fn not(_a: &Self::F) -> Option<Result<Self::F, String>> {
                None
            }
            fn not_model(a: &$V) -> $V {
                a.clone()
            }
            fn ite(c: &Self::F, t: &Self::F, e: &Self::F) -> Result<Self::F, String> {
                oom(c.ite(t, e))
            }
            fn ite_model(c: &$V, t: &$V, e: &$V) -> $V {
                if *c == $one { t.clone() } else { e.clone() }
            }
            fn cond_ok(c: &$V) -> bool {
                *c == $one || *c == $zero
            }
            fn restrict(f: &Self::F, cube: &Self::F) -> Option<Result<Self::F, String>> {
                Some(oom(f.restrict(cube)))
            }
            fn interp(f: &Self::F, digits: &[usize]) -> $V {
                f.with_manager_shared(|m, e| interp_val(m, e, digits, 2, &|t: &$T| $from(t)))
            }
            fn eval(f: &Self::F, digits: &[usize]) -> $V {
                $from(&PseudoBooleanFunction::eval(f, digits.iter().enumerate().map(|(v, d)| (v as u32, *d == 1))))
            }
            fn eval_args(f: &Self::F, args: &[(VarNo, usize)]) -> $V {
                $from(&PseudoBooleanFunction::eval(f, args.iter().map(|(v, d)| (*v, *d == 1))))
            }
            const MISSING_DIGIT: usize = 0;
            fn audit(mr: &VMRef<Self>, handles: &[&Self::F], check_rc: bool) -> Result<AuditInfo, String> {
                mr.with_manager_exclusive(|m| {
                    let roots: Vec<_> = handles.iter().map(|h| h.as_edge(m)).collect();
                    audit(&*m, &roots, Sem::Bdd, 2, &|_t: &$T| false, check_rc, &HashMap::new())
                })
            }
            fn set_var_order(mr: &VMRef<Self>, order: &[VarNo], seq: bool) {
                mr.with_manager_exclusive(|m| if seq { oxidd_reorder::set_var_order_seq(m, order) } else { oxidd_reorder::set_var_order(m, order) })
            }
            fn root_level(f: &Self::F) -> Option<u32> {
                f.with_manager_shared(|m, e| match m.get_node(e) {
                    Node::Inner(n) => Some(n.level()),
                    Node::Terminal(_) => None,
                })
            }
            fn cofactors(_f: &Self::F) -> Option<Option<Vec<Self::F>>> {
                None
            }
            fn dump(mr: &VMRef<Self>) -> String {
                mr.with_manager_exclusive(|m| crate::kinds::dump(&*m))
            }
        }
    };
}

fn ri_model(i: usize, a: &RI, b: &RI) -> RI {
    match i {
        0 => a.add(*b),
        1 => a.sub(*b),
        2 => a.mul(*b),
        3 => a.div(*b),
        4 => a.min(*b),
        _ => a.max(*b),
    }
}
fn rf_model(i: usize, a: &RF, b: &RF) -> RF {
    let (x, y) = (a.get(), b.get());
    match i {
        0 => RF::new(x + y),
        1 => RF::new(x - y),
        2 => RF::new(x * y),
        3 => RF::new(x / y),
        4 => a.min(*b),
        _ => a.max(*b),
    }
}

pub fn ri_palette() -> Vec<RI> {
    vec![RI::Num(0), RI::Num(1), RI::Num(-1), RI::Num(2), RI::Num(3), RI::Num(-7), RI::Num(i64::MIN), RI::Num(i64::MAX), RI::PInf, RI::NInf, RI::NaN]
}
pub fn rf_palette() -> Vec<RF> {
    [0.0, 1.0, -1.0, 2.0, 0.5, -7.25, f64::MAX, f64::MIN_POSITIVE / 4.0, f64::INFINITY, f64::NEG_INFINITY, f64::NAN, 1e300, -1e300].iter().map(|x| RF::new(*x)).collect()
}

mt_kind!(MtI64K, "mtbdd-i64", I64, RI, ri_to, ri_from, ri_palette(), ri_model, RI::Num(0), RI::Num(1));
mt_kind!(MtF64K, "mtbdd-f64", F64, RF, rf_to, rf_from, rf_palette(), rf_model, RF::new(0.0), RF::new(1.0));

// --- TDD --------------------------------------------------------------------

pub const TDD_BINS: [&str; 8] = ["and", "or", "nand", "nor", "xor", "equiv", "imp", "imp_strict"];

fn tri_from(t: &TDDTerminal) -> Tri {
    match t {
        TDDTerminal::False => Tri::F,
        TDDTerminal::Unknown => Tri::U,
        TDDTerminal::True => Tri::T,
    }
}

pub struct TddK;
impl VKind for TddK {
    const NAME: &'static str = "tdd";
    const BASE: usize = 3;
    const IS_TDD: bool = true;
    type V = Tri;
    type F = oxidd::tdd::TDDFunction;
    fn new_manager(inner: usize, _terminals: usize, cache: usize, threads: u32) -> VMRef<Self> {
        oxidd::tdd::new_manager(inner, cache, threads)
    }
    fn palette() -> Vec<Tri> {
        TRIS.to_vec()
    }
    fn constant(mr: &VMRef<Self>, v: &Tri) -> Result<Self::F, String> {
        Ok(mr.with_manager_shared(|m| match v {
            Tri::F => Self::F::f(m),
            Tri::U => Self::F::u(m),
            Tri::T => Self::F::t(m),
        }))
    }
    fn var(mr: &VMRef<Self>, v: VarNo) -> Result<Self::F, String> {
        mr.with_manager_shared(|m| oom(Self::F::var(m, v)))
    }
    fn var_value(d: usize) -> Tri {
        TRIS[d]
    }
    fn bin_names() -> &'static [&'static str] {
        &TDD_BINS
    }
    fn bin(i: usize, a: &Self::F, b: &Self::F) -> Result<Self::F, String> {
        oom(match i {
            0 => a.and(b),
            1 => a.or(b),
            2 => a.nand(b),
            3 => a.nor(b),
            4 => a.xor(b),
            5 => a.equiv(b),
            6 => a.imp(b),
            _ => a.imp_strict(b),
        })
    }
    fn bin_model(i: usize, a: &Tri, b: &Tri) -> Tri {
        match i {
            0 => a.and(*b),
            1 => a.or(*b),
            2 => a.nand(*b),
            3 => a.nor(*b),
            4 => a.xor(*b),
            5 => a.equiv(*b),
            6 => a.imp(*b),
            _ => a.imp_strict(*b),
        }
    }
    fn not(a: &Self::F) -> Option<Result<Self::F, String>> {
        Some(oom(a.not()))
    }
    fn not_model(a: &Tri) -> Tri {
        a.not()
    }
    fn ite(c: &Self::F, t: &Self::F, e: &Self::F) -> Result<Self::F, String> {
        oom(c.ite(t, e))
    }
    fn ite_model(c: &Tri, t: &Tri, e: &Tri) -> Tri {
        c.ite(*t, *e)
    }
    fn cond_ok(_c: &Tri) -> bool {
        true
    }
    fn restrict(_f: &Self::F, _cube: &Self::F) -> Option<Result<Self::F, String>> {
        None
    }
    fn interp(f: &Self::F, digits: &[usize]) -> Tri {
        f.with_manager_shared(|m, e| interp_val(m, e, digits, 3, &|t: &TDDTerminal| tri_from(t)))
    }
    const MISSING_DIGIT: usize = 1;
    fn eval_args(f: &Self::F, args: &[(VarNo, usize)]) -> Tri {
        let r = TVLFunction::eval(
            f,
            args.iter().map(|(v, d)| {
                (
                    *v,
                    match d {
                        0 => Some(false),
                        1 => None,
                        _ => Some(true),
                    },
                )
            }),
        );
        match r {
            Some(false) => Tri::F,
            None => Tri::U,
            Some(true) => Tri::T,
        }
    }
    fn eval(f: &Self::F, digits: &[usize]) -> Tri {
        let r = TVLFunction::eval(
            f,
            digits.iter().enumerate().map(|(v, d)| {
                (
                    v as u32,
                    match d {
                        0 => Some(false),
                        1 => None,
                        _ => Some(true),
                    },
                )
            }),
        );
        match r {
            Some(false) => Tri::F,
            None => Tri::U,
            Some(true) => Tri::T,
        }
    }
    fn audit(mr: &VMRef<Self>, handles: &[&Self::F], check_rc: bool) -> Result<AuditInfo, String> {
        mr.with_manager_exclusive(|m| {
            let roots: Vec<_> = handles.iter().map(|h| h.as_edge(m)).collect();
            audit(&*m, &roots, Sem::Bdd, 3, &|_t: &TDDTerminal| false, check_rc, &HashMap::new())
        })
    }
    fn set_var_order(mr: &VMRef<Self>, order: &[VarNo], seq: bool) {
        mr.with_manager_exclusive(|m| if seq { oxidd_reorder::set_var_order_seq(m, order) } else { oxidd_reorder::set_var_order(m, order) })
    }
    fn root_level(f: &Self::F) -> Option<u32> {
        f.with_manager_shared(|m, e| match m.get_node(e) {
            Node::Inner(n) => Some(n.level()),
            Node::Terminal(_) => None,
        })
    }
    fn cofactors(f: &Self::F) -> Option<Option<Vec<Self::F>>> {
        let c = f.cofactors();
        let (ct, cu, cf) = (f.cofactor_true(), f.cofactor_unknown(), f.cofactor_false());
        Some(match c {
            None => {
                if ct.is_some() || cu.is_some() || cf.is_some() {
                    // signal inconsistency by returning a 1-element vector
                    Some(vec![])
                } else {
                    None
                }
            }
            Some((a, b, cc)) => {
                if ct.as_ref() != Some(&a) || cu.as_ref() != Some(&b) || cf.as_ref() != Some(&cc) {
                    Some(vec![])
                } else {
                    Some(vec![a, b, cc])
                }
            }
        })
    }
    fn dump(mr: &VMRef<Self>) -> String {
        mr.with_manager_exclusive(|m| crate::kinds::dump(&*m))
    }
}

#[allow(unused)]
fn _nb<T: NumberBase>() {}
