//! C13 — cube picking.

use std::cell::RefCell;
use std::io::Write;
use std::time::Instant;

use oxidd::util::{OptBool, SatCountCache};
use oxidd::{BooleanFunction, Edge, HasLevel, Manager, ManagerRef, Node};
use proptest::prelude::*;
use serde_json::json;

use crate::build::*;
use crate::c02::{all256, order_from_keys, tt_from_words};
use crate::engine::*;
use crate::kinds::*;
use crate::model::*;

type Cube = Vec<Option<bool>>;

/// One step of the canonical walk, computed from the table alone.
enum Step {
    /// reached the true terminal (BDD/BCDD: g == 1; ZBDD: g == base family)
    Done,
    /// next tested level; forced value if one branch is unsatisfiable
    Node { level: usize, forced: Option<bool>, dont_care: bool },
}

fn next_step(kind: BKind, g: &TT, from: usize, order: &[u32], cube: &mut Cube) -> Step {
    let n = order.len();
    match kind {
        BKind::Bdd | BKind::Bcdd => {
            let mut l = from;
            while l < n && !g.depends(order[l]) {
                l += 1;
            }
            if l == n {
                return Step::Done;
            }
            let v = order[l];
            let forced = if g.cof(v, true).is_zero() { Some(false) } else if g.cof(v, false).is_zero() { Some(true) } else { None };
            Step::Node { level: l, forced, dont_care: false }
        }
        BKind::Zbdd => {
            let mut l = from;
            loop {
                if l == n {
                    return Step::Done;
                }
                let v = order[l];
                if g.zcof(v, true).is_zero() {
                    // level skipped in the diagram: the variable is 0 in every member
                    cube[v as usize] = Some(false);
                    l += 1;
                    continue;
                }
                let dc = g.zcof(v, true) == g.zcof(v, false);
                let forced = if dc { None } else if g.zcof(v, false).is_zero() { Some(true) } else { None };
                return Step::Node { level: l, forced, dont_care: dc };
            }
        }
    }
}

fn descend(kind: BKind, g: &TT, v: u32, val: bool) -> TT {
    if kind == BKind::Zbdd { g.zcof(v, val) } else { g.cof(v, val) }
}

/// Canonical walk with a decision function for the free choices. Returns the
/// cube and the levels at which a free choice occurred.
fn walk(kind: BKind, t: &TT, order: &[u32], decide: impl FnMut(usize, u32) -> bool) -> Option<(Cube, Vec<usize>)> {
    walk2(kind, t, order, decide, |_, _| None)
}

/// `dc` is asked at ZBDD don't-care nodes (hi == lo): None = leave don't care
fn walk2(kind: BKind, t: &TT, order: &[u32], mut decide: impl FnMut(usize, u32) -> bool, mut dc: impl FnMut(usize, u32) -> Option<bool>) -> Option<(Cube, Vec<usize>)> {
    if t.is_zero() {
        return None;
    }
    let n = order.len();
    let mut cube: Cube = vec![None; n];
    let mut g = *t;
    let mut l = 0;
    let mut choices = vec![];
    loop {
        match next_step(kind, &g, l, order, &mut cube) {
            Step::Done => break,
            Step::Node { level, forced, dont_care } => {
                let v = order[level];
                if dont_care {
                    cube[v as usize] = dc(level, v);
                    g = descend(kind, &g, v, true);
                } else {
                    let c = match forced {
                        Some(b) => b,
                        None => {
                            choices.push(level);
                            decide(level, v)
                        }
                    };
                    cube[v as usize] = Some(c);
                    g = descend(kind, &g, v, c);
                }
                l = level + 1;
            }
        }
    }
    Some((cube, choices))
}

fn to_cube(v: &[OptBool]) -> Cube {
    v.iter()
        .map(|o| match o {
            OptBool::None => None,
            OptBool::False => Some(false),
            OptBool::True => Some(true),
        })
        .collect()
}

struct ChoiceLog {
    calls: Vec<(u32, Option<u32>)>, // (level passed, level of node the edge points to)
}

fn pick_with_log<K: BoolKind>(f: &K::F, bits: u32, dd: bool) -> (Option<Cube>, Option<K::F>, ChoiceLog)
where
    for<'id> <<K::F as oxidd::Function>::Manager<'id> as Manager>::InnerNode: HasLevel,
{
    let log = RefCell::new(ChoiceLog { calls: vec![] });
    if dd {
        let r = f.pick_cube_dd(|m, e, l| {
            let nl = match m.get_node(e) {
                Node::Inner(n) => Some(n.level()),
                Node::Terminal(_) => None,
            };
            log.borrow_mut().calls.push((l, nl));
            (bits >> l) & 1 == 1
        });
        (None, Some(r.expect("oom")), log.into_inner())
    } else {
        let r = f.pick_cube(|m, e, l| {
            let nl = match m.get_node(e) {
                Node::Inner(n) => Some(n.level()),
                Node::Terminal(_) => None,
            };
            log.borrow_mut().calls.push((l, nl));
            (bits >> l) & 1 == 1
        });
        (r.map(|v| to_cube(&v)), None, log.into_inner())
    }
}

fn check_log(log: &ChoiceLog, expected_levels: &[usize]) -> Result<(), String> {
    let mut seen = std::collections::HashSet::new();
    for (l, nl) in &log.calls {
        if !seen.insert(*l) {
            return Err(format!("choice-twice: choice called more than once for level {l}"));
        }
        if *nl != Some(*l) {
            return Err(format!("choice-edge: choice called for level {l} with an edge to a node at level {nl:?}"));
        }
    }
    let got: Vec<usize> = log.calls.iter().map(|c| c.0 as usize).collect();
    if got != expected_levels {
        return Err(format!("choice-levels: choice was called for levels {got:?}, the free choices of the canonical walk are at {expected_levels:?}"));
    }
    Ok(())
}

/// all checks for one function; returns number of comparisons
fn check_function<K: BoolKind>(mr: &MRef<K>, f: &K::F, t: &TT, order: &[u32], lit_cubes: &[(Cube, K::F)], all_choice_vectors: bool, seed: u64) -> Result<u64, String>
where
    for<'id> <<K::F as oxidd::Function>::Manager<'id> as Manager>::InnerNode: HasLevel,
{
    let _ = mr;
    let n = order.len() as u32;
    let mut cmp = 0u64;
    let nvec = 1u32 << n;
    let vecs: Vec<u32> = if all_choice_vectors { (0..nvec).collect() } else { vec![0, nvec - 1, (seed as u32) & (nvec - 1), ((seed >> 20) as u32) & (nvec - 1)] };
    for bits in vecs {
        let exp = walk(K::KIND, t, order, |l, _| (bits >> l) & 1 == 1);
        // pick_cube
        let (c, _, log) = pick_with_log::<K>(f, bits, false);
        cmp += 1;
        match (&exp, &c) {
            (None, None) => {}
            (Some((ec, lv)), Some(c)) => {
                let ct = TT::cube(n, c);
                if !ct.and(&t.not()).is_zero() {
                    return Err(format!("not-implicant: pick_cube(choice bits {bits:b}) = {c:?} does not imply the function"));
                }
                if c != ec {
                    return Err(format!("pick_cube-walk: pick_cube(choice bits {bits:b}) = {c:?}, canonical walk gives {ec:?}"));
                }
                check_log(&log, lv).map_err(|e| format!("{e} (pick_cube, bits {bits:b})"))?;
            }
            _ => return Err(format!("none-iff-unsat: pick_cube returned {c:?} for table {t:?}")),
        }
        // pick_cube_dd
        let (_, d, log) = pick_with_log::<K>(f, bits, true);
        let d = d.unwrap();
        let dt = K::table(&d, n);
        cmp += 1;
        match &exp {
            None => {
                if !dt.is_zero() {
                    return Err(format!("none-iff-unsat: pick_cube_dd of the unsatisfiable function is {dt:?}"));
                }
            }
            Some((ec, lv)) => {
                if dt != TT::cube(n, ec) {
                    return Err(format!("pick_cube_dd-walk: pick_cube_dd(choice bits {bits:b}) denotes {dt:?}, canonical walk gives cube {ec:?} (pick_cube and pick_cube_dd must describe the same cube)"));
                }
                check_log(&log, lv).map_err(|e| format!("{e} (pick_cube_dd, bits {bits:b})"))?;
            }
        }
    }
    // pick_cube_dd_set
    for (lits, lf) in lit_cubes {
        let r = f.pick_cube_dd_set(lf).expect("oom");
        let rt = K::table(&r, n);
        cmp += 1;
        if t.is_zero() {
            if !rt.is_zero() {
                return Err(format!("none-iff-unsat: pick_cube_dd_set of the unsatisfiable function is {rt:?}"));
            }
            continue;
        }
        if rt.is_zero() {
            return Err(format!("none-iff-unsat: pick_cube_dd_set({lits:?}) of satisfiable {t:?} is false"));
        }
        let Some(rc) = rt.as_cube() else { return Err(format!("not-a-cube: pick_cube_dd_set({lits:?}) = {rt:?} is not a conjunction of literals")) };
        if !rt.and(&t.not()).is_zero() {
            return Err(format!("not-implicant: pick_cube_dd_set({lits:?}) = {rc:?} does not imply the function"));
        }
        // guided walk: literal polarity where given, otherwise whatever the result chose
        let mut bad: Option<String> = None;
        let bad_cell = RefCell::new(None::<String>);
        let exp = walk2(
            K::KIND,
            t,
            order,
            |_l, v| match lits[v as usize] {
                Some(p) => p,
                None => match rc[v as usize] {
                    Some(b) => b,
                    None => {
                        *bad_cell.borrow_mut() = Some(format!("variable {v} is a free choice on the walk but is don't-care in the result"));
                        true
                    }
                },
            },
            // ZBDD node with hi == lo: both values are fine. The result may leave it
            // don't-care or (if the variable is in the literal set) use its polarity.
            |_l, v| match (lits[v as usize], rc[v as usize]) {
                (Some(p), Some(b)) if p == b => Some(b),
                (_, None) => None,
                (_, Some(b)) => {
                    *bad_cell.borrow_mut() = Some(format!("variable {v} could be left don't-care and {} but is {b} in the result", if lits[v as usize].is_some() { "has the other polarity in the literal set" } else { "is not in the literal set" }));
                    None
                }
            },
        )
        .unwrap()
        .0;
        bad = bad_cell.into_inner();
        if let Some(b) = bad {
            return Err(format!("dd_set-walk: pick_cube_dd_set({lits:?}) = {rc:?}: {b}"));
        }
        // ZBDD don't-care nodes: result table of cube with None both ways
        if TT::cube(n, &exp) != rt {
            return Err(format!("dd_set-polarity: pick_cube_dd_set(literal set {lits:?}) = {rc:?}, but honouring the literal polarities at the free choices of the canonical walk gives {exp:?}"));
        }
    }
    Ok(cmp)
}

fn literal_cubes<K: BoolKind>(mr: &MRef<K>, n: u32, codes: impl Iterator<Item = u32>) -> Vec<(Cube, K::F)> {
    let vs = vars::<K>(mr, n);
    let tru = mr.with_manager_shared(|m| K::F::t(m));
    codes
        .map(|code| {
            let lits: Cube = (0..n).map(|v| match (code / 3u32.pow(v)) % 3 { 0 => None, 1 => Some(true), _ => Some(false) }).collect();
            let mut cube = tru.clone();
            for v in 0..n as usize {
                match lits[v] {
                    Some(true) => cube = cube.and(&vs[v]).unwrap(),
                    Some(false) => cube = cube.and(&vs[v].not().unwrap()).unwrap(),
                    None => {}
                }
            }
            (lits, cube)
        })
        .collect()
}

/// chi-square test of pick_cube_uniform on one function
fn uniform_check<K: BoolKind>(f: &K::F, t: &TT, order: &[u32], seed: u64, draws: u32) -> Result<(), String> {
    use std::collections::HashMap;
    let n = order.len() as u32;
    let mut cache: SatCountCache<oxidd::util::num::F64, std::hash::BuildHasherDefault<oxidd::util::FxHasher>> = SatCountCache::default();
    cache.cache_all = seed % 2 == 0;
    let mut rng = oxidd::util::Rng::new_seed(seed);
    if t.is_zero() {
        return match f.pick_cube_uniform(&mut cache, &mut rng) {
            None => Ok(()),
            Some(c) => Err(format!("none-iff-unsat: pick_cube_uniform of the unsatisfiable function returned {c:?}")),
        };
    }
    // possible cubes = all walks
    let mut possible: HashMap<Cube, f64> = HashMap::new();
    let models = t.popcount() as f64;
    for bits in 0..(1u32 << n) {
        let (c, _) = walk(K::KIND, t, order, |l, _| (bits >> l) & 1 == 1).unwrap();
        let k = c.iter().filter(|x| x.is_none()).count() as i32;
        possible.insert(c, 2f64.powi(k) / models);
    }
    let psum: f64 = possible.values().sum();
    if (psum - 1.0).abs() > 1e-9 {
        return Err(format!("harness: path probabilities sum to {psum}"));
    }
    let mut counts: HashMap<Cube, u32> = HashMap::new();
    for _ in 0..draws {
        let Some(c) = f.pick_cube_uniform(&mut cache, &mut rng) else { return Err("none-iff-unsat: pick_cube_uniform returned None for a satisfiable function".into()) };
        let c = to_cube(&c);
        if !TT::cube(n, &c).and(&t.not()).is_zero() {
            return Err(format!("uniform-non-model: pick_cube_uniform returned {c:?} which does not imply the function"));
        }
        if !possible.contains_key(&c) {
            return Err(format!("uniform-not-a-path: pick_cube_uniform returned {c:?}, not a path of the canonical diagram"));
        }
        *counts.entry(c).or_insert(0) += 1;
    }
    let dof = possible.len() as f64 - 1.0;
    if dof < 1.0 {
        return Ok(());
    }
    let mut chi2 = 0.0;
    for (c, p) in &possible {
        let e = p * draws as f64;
        let o = counts.get(c).copied().unwrap_or(0) as f64;
        chi2 += (o - e) * (o - e) / e;
    }
    let limit = dof + 9.0 * (2.0 * dof).sqrt() + 45.0;
    if chi2 > limit {
        return Err(format!("uniform-bias: chi-square {chi2:.1} with {dof} degrees of freedom over {draws} draws (limit {limit:.1}); counts {counts:?}"));
    }
    Ok(())
}

fn exh3<K: BoolKind>(order: &[u32], cfg: &Cfg, rep: &mut Report)
where
    for<'id> <<K::F as oxidd::Function>::Manager<'id> as Manager>::InnerNode: HasLevel,
{
    let ctx = json!({"kind": K::NAME, "order": order});
    progress(&json!({"sig": format!("C13/{}/crash-setup", K::NAME), "ctx": ctx}).to_string());
    let mr = mk_manager::<K>(3, order, 1 << 12, 1 << 8, 1);
    let Some(fns) = all256::<K>(&mr, rep, &ctx) else { return };
    let lcs = literal_cubes::<K>(&mr, 3, 0..27);
    for t in 0..256usize {
        progress(&json!({"sig": format!("C13/{}/crash", K::NAME), "ctx": ctx, "table": t}).to_string());
        let tt = TT::from_u64(3, t as u64);
        match check_function::<K>(&mr, &fns[t], &tt, order, &lcs, true, 0) {
            Ok(c) => {
                rep.evaluations += c;
                // non-trivial: a free choice below the first decided level exists
                if let Some((_, lv)) = walk(K::KIND, &tt, order, |_, _| true) {
                    if lv.len() >= 1 {
                        rep.nontrivial += 1;
                    }
                }
            }
            Err(m) => rep.viol(format!("C13/{}/{}", K::NAME, crate::hrun::category(&m)), format!("{m} [table {t:02x}]"), json!({"ctx": ctx, "table": t})),
        }
        let draws = cfg.t(2048, 16384);
        rep.evaluations += 1;
        if let Err(m) = uniform_check::<K>(&fns[t], &tt, order, mix(cfg.seed ^ (t as u64 * 31 + order[0] as u64)), draws) {
            rep.viol(format!("C13/{}/{}", K::NAME, crate::hrun::category(&m)), format!("{m} [table {t:02x}]"), json!({"ctx": ctx, "table": t, "draws": draws}));
        }
    }
    rep.class_n(&format!("{}.functions_x_8_choice_vectors_x_27_literal_sets", K::NAME), 256);
    if rep.samples.is_empty() {
        let tt = TT::from_u64(3, 0x96);
        rep.sample(json!({"ctx": ctx, "example": {"table": "0x96 (x0^x1^x2)", "choice bits": "0b101", "expected cube": format!("{:?}", walk(K::KIND, &tt, order, |l, _| (0b101 >> l) & 1 == 1).map(|x| x.0))}}));
    }
}

#[derive(Clone, Debug)]
struct RCase {
    n: u32,
    order_keys: Vec<u16>,
    words: Vec<u64>,
    density: u8,
    lit_codes: Vec<u32>,
    seed: u64,
}

fn rstrategy() -> impl Strategy<Value = RCase> {
    (4u32..=8).prop_flat_map(|n| {
        (Just(n), proptest::collection::vec(any::<u16>(), 8), proptest::collection::vec(any::<u64>(), 4), 0u8..4, proptest::collection::vec(0u32..3u32.pow(n), 3), any::<u64>())
            .prop_map(|(n, order_keys, words, density, lit_codes, seed)| RCase { n, order_keys, words, density, lit_codes, seed })
    })
}

fn rand_job<K: BoolKind>(seed: u64, cases: u32, rep: &mut Report)
where
    for<'id> <<K::F as oxidd::Function>::Manager<'id> as Manager>::InnerNode: HasLevel,
{
    let strat = rstrategy();
    let mut nt = 0u64;
    let mut samples = vec![];
    let out = crate::pt::run(
        seed,
        cases,
        &strat,
        |c| {
            nt += 1;
            if samples.len() < 2 {
                samples.push(json!({"kind": K::NAME, "n": c.n, "order": order_from_keys(c.n, &c.order_keys), "f": tt_from_words(c.n, &c.words, c.density).hex(), "literal_set_codes(base 3)": c.lit_codes}));
            }
            progress(&json!({"sig": format!("C13/{}/random/crash", K::NAME), "case": format!("{c:?}")}).to_string());
        },
        |c| {
            let order = order_from_keys(c.n, &c.order_keys);
            let mr = mk_manager::<K>(c.n, &order, 1 << 14, 1 << 8, 1);
            let vs = vars::<K>(&mr, c.n);
            let t = tt_from_words(c.n, &c.words, c.density);
            let f = from_shannon::<K>(&mr, &vs, &t, &mut Default::default());
            let lcs = literal_cubes::<K>(&mr, c.n, c.lit_codes.iter().copied());
            check_function::<K>(&mr, &f, &t, &order, &lcs, false, c.seed)?;
            if c.n <= 5 {
                uniform_check::<K>(&f, &t, &order, c.seed | 1, 1024)?;
            }
            Ok(())
        },
    );
    rep.evaluations += out.cases * 11;
    rep.nontrivial += nt.min(out.cases);
    rep.class_n(&format!("{}.random_cases", K::NAME), out.cases);
    for s in samples {
        rep.sample(s);
    }
    if let Some((c, msg)) = out.failure {
        rep.viol(format!("C13/{}/{}", K::NAME, crate::hrun::category(&msg)), msg, json!({"kind": K::NAME, "n": c.n, "order": order_from_keys(c.n, &c.order_keys), "f": tt_from_words(c.n, &c.words, c.density).hex(), "lit_codes": c.lit_codes, "seed": c.seed}));
    }
}

pub fn run(cfg: &Cfg) -> i32 {
    let start = Instant::now();
    let perms = permutations(3);
    let mut jobs: Vec<Box<dyn FnMut(&mut dyn Write) + '_>> = vec![];
    let mut names = vec![];
    macro_rules! add_kind {
        ($K:ty, $salt:expr) => {
            for order in &perms {
                let order = order.clone();
                names.push(format!("exh3/{}/{:?}", <$K>::NAME, order));
                jobs.push(Box::new(move |w: &mut dyn Write| {
                    let mut rep = Report::default();
                    exh3::<$K>(&order, cfg, &mut rep);
                    rep.emit(w);
                }));
            }
            for sh in 0..cfg.t(2, 5) {
                let seed = mix(cfg.seed ^ (0xc13_000 + $salt * 100 + sh as u64));
                let cases = cfg.t(1500, 20000);
                names.push(format!("rand/{}/{}", <$K>::NAME, sh));
                jobs.push(Box::new(move |w: &mut dyn Write| {
                    let mut rep = Report::default();
                    chunked(seed, cases, 500, &mut rep, |s, n, r| rand_job::<$K>(s, n, r));
                    rep.emit(w);
                }));
            }
        };
    }
    add_kind!(BddK, 1);
    add_kind!(BcddK, 2);
    add_kind!(ZbddK, 3);
    let outs = run_jobs(&mut jobs, cfg.par, cfg.t(900, 7200));
    drop(jobs);
    let mut total = Report::default();
    merge_jobs(&mut total, outs, &names);
    conclude(
        cfg,
        &total,
        Meta {
            level: "exploration",
            rule: "exhaustive n=3: 256 functions x all 8 choice vectors (fixed bit per level) x all 27 literal sets x 6 orders x {BDD,BCDD,ZBDD}; random functions/literal sets over 4..8 variables. Oracle: a table-level simulation of the walk through the unique reduced diagram (next tested variable, forcedness, ZBDD skipped level => 0, ZBDD hi=lo => don't care) computed from the truth table only. Checked: None/false exactly for the unsatisfiable function; result is a cube implying the function; pick_cube == pick_cube_dd == simulated walk; choice called at most once per level, only at free choices, with an edge to a node of that level; pick_cube_dd_set honours the literal polarity at every free choice. pick_cube_uniform: never a non-model, only paths of the canonical diagram, chi-square over the path distribution (expected 2^dontcares/|models|) with fixed WyRand seeds and a very wide rejection limit. Non-trivial = satisfiable function whose walk contains at least one free choice.",
            assumptions: vec!["the cube vector is indexed by variable number (as implemented: cube[level_to_var(level)])".into(), "chi-square limit dof + 9*sqrt(2 dof) + 45: far beyond any plausible sampling fluctuation, deterministic for a fixed seed".into()],
            extra: json!({}),
        },
        start,
    )
}
