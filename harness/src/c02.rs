//! C02 — Boolean connectives, ITE, constants, variables, eval, cofactors.

use std::collections::HashMap;
use std::io::Write;
use std::time::Instant;

use oxidd::{BooleanFunction, Function, ManagerRef};
use proptest::prelude::*;
use serde_json::json;

use crate::build::*;
use crate::engine::*;
use crate::kinds::*;
use crate::model::*;

pub fn apply_op<F: BooleanFunction>(op: BinOp, a: &F, b: &F) -> F {
    match op {
        BinOp::And => a.and(b),
        BinOp::Or => a.or(b),
        BinOp::Xor => a.xor(b),
        BinOp::Equiv => a.equiv(b),
        BinOp::Nand => a.nand(b),
        BinOp::Nor => a.nor(b),
        BinOp::Imp => a.imp(b),
        BinOp::ImpStrict => a.imp_strict(b),
    }
    .expect("unexpected out of memory")
}

/// support (set of variables as mask) of an 8-bit table over 3 variables
fn support3(t: u8) -> u8 {
    let tt = TT::from_u64(3, t as u64);
    (0..3).filter(|&v| tt.depends(v)).map(|v| 1u8 << v).sum()
}

/// Build all 256 functions, verified against the independent interpreter
pub fn all256<K: BoolKind>(mr: &MRef<K>, rep: &mut Report, ctx: &serde_json::Value) -> Option<Vec<K::F>> {
    let vs = vars::<K>(mr, 3);
    let mut memo = HashMap::new();
    let mut fns = Vec::with_capacity(256);
    for t in 0..256u64 {
        let tt = TT::from_u64(3, t);
        let f = from_shannon::<K>(mr, &vs, &tt, &mut memo);
        let got = K::table(&f, 3);
        rep.evaluations += 1;
        if got != tt {
            rep.viol(
                format!("C02/{}/construct", K::NAME),
                format!("building table {tt:?} by Shannon/ite yields a diagram interpreting as {got:?}"),
                json!({"ctx": ctx, "table": t}),
            );
            return None;
        }
        fns.push(f);
    }
    Some(fns)
}

fn exh3<K: BoolKind>(order: &[u32], threads: u32, depth: Option<u32>, cfg: &Cfg, rep: &mut Report) {
    // multi-threaded managers hand every operation to the worker pool (tens of
    // microseconds each): those configurations run on a seeded sample
    let pair_sample: u64 = if threads > 1 { cfg.t(16, 2) } else { 1 };
    let ite_extra: u64 = if threads > 1 { cfg.t(32, 4) } else { 1 };
    let ctx = json!({"kind": K::NAME, "order": order, "threads": threads, "split_depth": depth});
    progress(&json!({"sig": format!("C02/{}/crash-setup", K::NAME), "ctx": ctx}).to_string());
    let mr = mk_manager::<K>(3, order, 1 << 14, 1 << 10, threads);
    K::set_split_depth(&mr, depth);
    let Some(fns) = all256::<K>(&mr, rep, &ctx) else { return };
    let supp: Vec<u8> = (0..256).map(|t| support3(t as u8)).collect();
    let level_ne_var = order.iter().enumerate().any(|(l, &v)| l as u32 != v);

    // constants and variables
    let (ff, tt) = mr.with_manager_shared(|m| (K::F::f(m), K::F::t(m)));
    let chk = |rep: &mut Report, what: &str, f: &K::F, exp: u8| {
        rep.evaluations += 1;
        if *f != fns[exp as usize] {
            let got = K::table(f, 3);
            let sig = if got == TT::from_u64(3, exp as u64) { format!("C01/{}/noncanonical", K::NAME) } else { format!("C02/{}/{}", K::NAME, what.split('(').next().unwrap()) };
            rep.viol(sig, format!("{what}: expected table {:02x}, got {got:?}", exp), json!({"ctx": ctx, "what": what}));
        }
    };
    chk(rep, "f", &ff, 0);
    chk(rep, "t", &tt, 0xff);
    for v in 0..3u32 {
        let (x, nx) = mr.with_manager_shared(|m| (K::F::var(m, v).unwrap(), K::F::not_var(m, v).unwrap()));
        let t = TT::var(3, v).w[0] as u8;
        chk(rep, &format!("var({v})"), &x, t);
        chk(rep, &format!("not_var({v})"), &nx, !t);
    }

    // eval vs independent interpreter, satisfiable/valid, not, cofactors
    for t in 0..256usize {
        let f = &fns[t];
        for a in 0..8usize {
            rep.evaluations += 1;
            let e = f.eval(assignment(3, a));
            if e != ((t >> a) & 1 == 1) {
                rep.viol(format!("C02/{}/eval", K::NAME), format!("eval of table {t:02x} at assignment {a:03b} = {e}"), json!({"ctx": ctx, "table": t, "assignment": a}));
            }
        }
        rep.evaluations += 2;
        if f.satisfiable() != (t != 0) {
            rep.viol(format!("C02/{}/satisfiable", K::NAME), format!("satisfiable({t:02x}) = {}", f.satisfiable()), json!({"ctx": ctx, "table": t}));
        }
        if f.valid() != (t == 0xff) {
            rep.viol(format!("C02/{}/valid", K::NAME), format!("valid({t:02x}) = {}", f.valid()), json!({"ctx": ctx, "table": t}));
        }
        chk(rep, &format!("not({t:02x})"), &f.not().unwrap(), !(t as u8));
        chk(rep, &format!("not_owned({t:02x})"), &f.clone().not_owned().unwrap(), !(t as u8));
        // cofactors
        let tt_t = TT::from_u64(3, t as u64);
        let rl = K::root_level(f);
        let cof = f.cofactors();
        rep.evaluations += 1;
        match (rl, &cof) {
            (None, None) => {}
            (Some(l), Some((ct, cf))) => {
                let v = order[l as usize];
                let (et, ef) = if K::KIND == BKind::Zbdd { (tt_t.zcof(v, true), tt_t.zcof(v, false)) } else { (tt_t.cof(v, true), tt_t.cof(v, false)) };
                // the root variable must be the top-most variable of the canonical form
                let gt = K::table(ct, 3);
                let gf = K::table(cf, 3);
                if gt != et || gf != ef {
                    rep.viol(format!("C02/{}/cofactors", K::NAME), format!("cofactors of {t:02x} w.r.t. top var {v}: got ({gt:?},{gf:?}) expected ({et:?},{ef:?})"), json!({"ctx": ctx, "table": t}));
                }
                let c1 = f.cofactor_true();
                let c0 = f.cofactor_false();
                if c1.as_ref() != Some(ct) || c0.as_ref() != Some(cf) {
                    rep.viol(format!("C02/{}/cofactor_true_false", K::NAME), format!("cofactor_true/false of {t:02x} disagree with cofactors()"), json!({"ctx": ctx, "table": t}));
                }
                rep.nontrivial += 1;
            }
            _ => {
                rep.viol(format!("C02/{}/cofactors-none", K::NAME), format!("cofactors({t:02x}).is_some() = {} but root is terminal = {}", cof.is_some(), rl.is_none()), json!({"ctx": ctx, "table": t}));
            }
        }
        if rl.is_none() && (f.cofactor_true().is_some() || f.cofactor_false().is_some()) {
            rep.viol(format!("C02/{}/cofactors-none", K::NAME), format!("cofactor_true/false of terminal {t:02x} is Some"), json!({"ctx": ctx, "table": t}));
        }
    }

    // all pairs x all binary operators
    let mut n_pairs = 0u64;
    for op in BINOPS {
        for a in 0..256usize {
            progress(&json!({"sig": format!("C02/{}/{:?}/crash", K::NAME, op), "ctx": ctx, "op": format!("{op:?}"), "a": a}).to_string());
            for b in 0..256usize {
                if pair_sample > 1 && mix(cfg.seed ^ ((op as u64) << 20 | (a as u64) << 8 | b as u64)) % pair_sample != 0 {
                    continue;
                }
                n_pairs += 1;
                let r = apply_op(op, &fns[a], &fns[b]);
                let exp = op.u8(a as u8, b as u8);
                rep.evaluations += 1;
                if r != fns[exp as usize] {
                    let got = K::table(&r, 3);
                    let sig = if got.w[0] as u8 == exp { format!("C01/{}/noncanonical", K::NAME) } else { format!("C02/{}/{:?}", K::NAME, op) };
                    rep.viol(sig, format!("{op:?}({a:02x},{b:02x}) expected {exp:02x} got {got:?}"), json!({"ctx": ctx, "op": format!("{op:?}"), "a": a, "b": b}));
                }
                let nt = supp[a] != 0 && supp[b] != 0 && a != b && (supp[a] | supp[b]).count_ones() >= 2 && level_ne_var;
                if nt {
                    rep.nontrivial += 1;
                }
            }
        }
    }
    rep.class_n(&format!("{}_pairs", K::NAME), n_pairs);

    // ite triples
    let full = cfg.thorough;
    let mut n_ite = 0u64;
    for a in 0..256usize {
        progress(&json!({"sig": format!("C02/{}/ite/crash", K::NAME), "ctx": ctx, "op": "ite", "a": a}).to_string());
        for b in 0..256usize {
            for c in 0..256usize {
                let special = a == 0 || a == 255 || b == 0 || b == 255 || c == 0 || c == 255 || a == b || b == c || a == c || a == (!b & 255) || a == (!c & 255) || b == (!c & 255);
                if (!full && !special) || ite_extra > 1 {
                    let h = mix(cfg.seed ^ ((a as u64) << 16 | (b as u64) << 8 | c as u64));
                    if h % (if special { ite_extra } else { 64 * ite_extra }) != 0 {
                        continue;
                    }
                }
                n_ite += 1;
                let r = fns[a].ite(&fns[b], &fns[c]).expect("oom");
                let exp = ((a & b) | (!a & c)) & 255;
                rep.evaluations += 1;
                if r != fns[exp] {
                    let got = K::table(&r, 3);
                    let sig = if got.w[0] as usize == exp { format!("C01/{}/noncanonical", K::NAME) } else { format!("C02/{}/ite", K::NAME) };
                    rep.viol(sig, format!("ite({a:02x},{b:02x},{c:02x}) expected {exp:02x} got {got:?}"), json!({"ctx": ctx, "op": "ite", "a": a, "b": b, "c": c}));
                }
                if supp[a] != 0 && supp[b] != 0 && supp[c] != 0 && (supp[a] | supp[b] | supp[c]).count_ones() == 3 {
                    rep.nontrivial += 1;
                }
            }
        }
    }
    rep.class_n(&format!("{}_ite_triples", K::NAME), n_ite);
    if rep.samples.len() < 2 {
        rep.sample(json!({"ctx": ctx, "suite": "all 256x256 pairs x 8 binary ops, not, ite triples, eval on all assignments, cofactors", "example": {"op": "Imp", "a": "0x6a", "b": "0x3c", "expected": format!("{:02x}", BinOp::Imp.u8(0x6a, 0x3c))}}));
    }
}

// ---------------------------------------------------------------------------
// random operands over 4..8 variables
// ---------------------------------------------------------------------------

#[derive(Clone, Debug)]
pub struct RandCase {
    n: u32,
    order_keys: Vec<u16>,
    words: [Vec<u64>; 3],
    density: [u8; 3],
}

pub fn order_from_keys(n: u32, keys: &[u16]) -> Vec<u32> {
    let mut idx: Vec<u32> = (0..n).collect();
    idx.sort_by_key(|&i| (keys[i as usize], i));
    idx
}

pub fn tt_from_words(n: u32, words: &[u64], density: u8) -> TT {
    // density 0: sparse (and of two words), 1: uniform, 2: dense (or of two words), 3: structured (few variables)
    let mut t = TT::zero(n);
    let k = if n <= 6 { 1 } else { 1usize << (n - 6) };
    for i in 0..k {
        let a = words[i % words.len()];
        let b = words[(i + 7) % words.len()].rotate_left(13);
        t.w[i] = match density % 4 {
            0 => a & b,
            1 => a,
            2 => a | b,
            _ => a,
        };
    }
    if n < 6 {
        t.w[0] &= (1u64 << (1u32 << n)) - 1;
    }
    if density % 4 == 3 {
        // make independent of about half the variables
        for v in (0..n).step_by(2) {
            t = t.cof(v, (words[0] >> v) & 1 == 1);
        }
    }
    t
}

fn rand_strategy() -> impl Strategy<Value = RandCase> {
    (4u32..=8).prop_flat_map(|n| {
        (
            Just(n),
            proptest::collection::vec(any::<u16>(), n as usize),
            [proptest::collection::vec(any::<u64>(), 4), proptest::collection::vec(any::<u64>(), 4), proptest::collection::vec(any::<u64>(), 4)],
            [0u8..4, 0u8..4, 0u8..4],
        )
            .prop_map(|(n, order_keys, words, density)| RandCase { n, order_keys, words, density })
    })
}

fn rand_check<K: BoolKind>(c: &RandCase, threads: u32) -> Result<(), String> {
    let n = c.n;
    let order = order_from_keys(n, &c.order_keys);
    let mr = mk_manager::<K>(n, &order, 1 << 16, 1 << 10, threads);
    let vs = vars::<K>(&mr, n);
    let tts: Vec<TT> = (0..3).map(|i| tt_from_words(n, &c.words[i], c.density[i])).collect();
    let mut memo = HashMap::new();
    let fs: Vec<K::F> = tts.iter().map(|t| from_shannon::<K>(&mr, &vs, t, &mut memo)).collect();
    for i in 0..3 {
        let got = K::table(&fs[i], n);
        if got != tts[i] {
            return Err(format!("construct: operand {i} table {:?} built as {:?}", tts[i], got));
        }
        // eval agrees with the interpreter on all assignments
        for a in 0..(1usize << n) {
            if fs[i].eval(assignment(n, a)) != tts[i].get(a) {
                return Err(format!("eval: operand {i} at assignment {a:b}"));
            }
        }
        let cnt = fs[i].node_count();
        let exp = K::ref_count(&tts[i], &order);
        if cnt != exp {
            return Err(format!("node_count: operand {i} has {cnt} nodes, reference canonical form has {exp}"));
        }
    }
    for op in BINOPS {
        for (i, j) in [(0, 1), (1, 2), (2, 0), (1, 1)] {
            let r = apply_op(op, &fs[i], &fs[j]);
            let exp = op.tt(&tts[i], &tts[j]);
            let got = K::table(&r, n);
            if got != exp {
                return Err(format!("{op:?}: operands {i},{j}: expected {exp:?} got {got:?}"));
            }
        }
    }
    let r = fs[0].ite(&fs[1], &fs[2]).map_err(|_| "oom")?;
    if K::table(&r, n) != tts[0].ite(&tts[1], &tts[2]) {
        return Err("ite: wrong result".to_string());
    }
    let r = fs[0].not().map_err(|_| "oom")?;
    if K::table(&r, n) != tts[0].not() {
        return Err("not: wrong result".to_string());
    }
    Ok(())
}

fn rand_job<K: BoolKind>(seed: u64, cases: u32, threads: u32, rep: &mut Report) {
    let strat = rand_strategy();
    let mut n = 0u64;
    let mut samples = vec![];
    let out = crate::pt::run(
        seed,
        cases,
        &strat,
        |c| {
            n += 1;
            if samples.len() < 2 {
                samples.push(json!({"kind": K::NAME, "n": c.n, "order": order_from_keys(c.n, &c.order_keys), "a": tt_from_words(c.n, &c.words[0], c.density[0]).hex(), "b": tt_from_words(c.n, &c.words[1], c.density[1]).hex()}));
            }
            progress(&json!({"sig": format!("C02/{}/random/crash", K::NAME), "case": format!("{c:?}"), "threads": threads}).to_string());
        },
        |c| rand_check::<K>(c, threads),
    );
    rep.evaluations += out.cases * 35;
    rep.nontrivial += out.cases;
    rep.class_n(&format!("{}_random_cases", K::NAME), out.cases);
    for s in samples {
        rep.sample(s);
    }
    if let Some((c, msg)) = out.failure {
        let kind = msg.split(':').next().unwrap_or("x").to_string();
        rep.viol(format!("C02/{}/random/{kind}", K::NAME), msg, json!({"kind": K::NAME, "threads": threads, "case": format!("{c:?}"), "n": c.n, "order": order_from_keys(c.n, &c.order_keys), "tables": (0..3).map(|i| tt_from_words(c.n, &c.words[i], c.density[i]).hex()).collect::<Vec<_>>() }));
    }
}

pub fn run(cfg: &Cfg) -> i32 {
    let start = Instant::now();
    let perms = permutations(3);
    let configs: Vec<(u32, Option<u32>)> =
        if cfg.thorough { vec![(1, None), (3, Some(0)), (3, Some(1)), (3, Some(2)), (3, None), (8, Some(3))] } else { vec![(1, None), (3, Some(1)), (3, None)] };
    let mut jobs: Vec<Box<dyn FnMut(&mut dyn Write) + '_>> = vec![];
    let mut names = vec![];
    macro_rules! add_kind {
        ($K:ty) => {
            for order in &perms {
                for &(threads, depth) in &configs {
                    let order = order.clone();
                    names.push(format!("exh3/{}/{:?}/t{}d{:?}", <$K>::NAME, order, threads, depth));
                    jobs.push(Box::new(move |w: &mut dyn Write| {
                        let mut rep = Report::default();
                        exh3::<$K>(&order, threads, depth, cfg, &mut rep);
                        rep.emit(w);
                    }));
                }
            }
            // (not part of the C20 recorder builds, which include this file without c02w)
            #[cfg(feature = "mtbdd")]
            {
                let cases = cfg.t(400, 6000);
                let seed = mix(cfg.seed ^ (0xc02_300 + <$K>::NAME.len() as u64 * 31 + <$K>::NAME.as_bytes()[1] as u64));
                names.push(format!("wide-eval/{}", <$K>::NAME));
                jobs.push(Box::new(move |w: &mut dyn Write| {
                    let mut rep = Report::default();
                    chunked(seed, cases, 500, &mut rep, |s, n, r| crate::c02w::wide_bool::<$K>(s, n, r));
                    rep.emit(w);
                }));
            }
            for (i, threads) in [1u32, 4].into_iter().enumerate() {
                let cases = cfg.t(300, 6000);
                let seed = mix(cfg.seed ^ (0xc02 + i as u64 * 977 + <$K>::NAME.len() as u64 * 31 + <$K>::NAME.as_bytes()[1] as u64));
                names.push(format!("rand/{}/t{}", <$K>::NAME, threads));
                jobs.push(Box::new(move |w: &mut dyn Write| {
                    let mut rep = Report::default();
                    chunked(seed, cases, 500, &mut rep, |s, n, r| rand_job::<$K>(s, n, threads, r));
                    rep.emit(w);
                }));
            }
        };
    }
    add_kind!(BddK);
    add_kind!(BcddK);
    add_kind!(ZbddK);
    let outs = run_jobs(&mut jobs, cfg.par, cfg.t(900, 7200));
    drop(jobs);
    let mut total = Report::default();
    merge_jobs(&mut total, outs, &names);
    total.exhaustive = false;
    conclude(
        cfg,
        &total,
        Meta {
            level: "exploration",
            rule: "exhaustive: all 256 three-variable functions (pairs x 8 binary operators, not, ite triples [all in thorough; in quick all triples with a constant/equal/complementary operand plus a seeded 1/64 sample], eval on all 8 assignments, cofactors, constants, variables) under all 6 variable orders x {BDD,BCDD,ZBDD} x thread/split-depth configurations; random operands over 4..8 variables (proptest) compared by full truth table through an independent node-by-node interpreter; eval() on wide managers: 9..200 variables (incl. 63/64/65/127/128/129) under random orders, functions of <= 5 variables that include the bottom level, block-boundary levels (7/8, 15/16, 31/32, 63/64) and the largest variable number, evaluated with shuffled complete argument lists, lists with repeated variables (documented: the last value counts), lists that omit a support variable and lists naming only support variables (documented: a decision variable without a value is false), non-trivial there = more than 16 variables. Non-trivial = both/all operands non-constant, distinct, jointly depending on >=2 (ite: 3) variables, in a manager whose level order differs from the variable numbering; every counted tuple (kind, order, config, operator, operands) is distinct by construction.",
            assumptions: vec![
                "oracle = bitwise operations on u8/u64 truth tables written in the harness".into(),
                "expected handles fns[t] are validated against the independent interpreter before use; a result equal (==) to fns[expected] is accepted, otherwise its table is recomputed by the interpreter".into(),
                "pointer backend and cache-less builds are covered by C20".into(),
            ],
            extra: json!({"configs": configs.iter().map(|c| format!("threads={} split_depth={:?}", c.0, c.1)).collect::<Vec<_>>()}),
        },
        start,
    )
}
