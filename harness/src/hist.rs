//! History language + interpreter for the Boolean kinds (BDD, BCDD, ZBDD).
//!
//! A history is a `Vec<Op>`; arguments are 16-bit selectors mapped
//! monotonically onto pool indices / variables so that proptest shrinking
//! keeps histories valid.

use std::collections::HashMap;
use std::hash::{Hash, Hasher};

use oxidd::{BooleanFunction, BooleanOperator, Function, Manager, ManagerRef, Subst};
use proptest::prelude::*;
use serde::{Deserialize, Serialize};

use crate::build::*;
use crate::kinds::*;
use crate::model::*;

#[derive(Clone, Debug, Serialize, Deserialize, PartialEq)]
pub enum Op {
    Const(bool),
    Var(u16),
    NotVar(u16),
    Bin(BinOp, u16, u16),
    Not(u16),
    Ite(u16, u16, u16),
    /// q: 0 exists, 1 forall, 2 unique; variable set as mask
    Quant(u8, u16, u16),
    ApplyQuant(u8, BinOp, u16, u16, u16),
    /// restrict(f, positive literal mask, negative literal mask)
    Restrict(u16, u16, u16),
    /// create substitution object in slot (slot, var mask, replacement selectors)
    NewSubst(u8, u16, Vec<u16>),
    /// apply substitution in slot to f
    Subst(u8, u16),
    Cofactor(u16, bool),
    Clone(u16),
    Drop(u16),
    DropOnThread(u16),
    DropAll,
    Gc,
    Churn(u8),
    AddVars(u8),
    /// keys per variable, mask of variables mentioned, sequential?
    SetOrder(Vec<u16>, u16, bool),
    /// rebuild the table of a pool entry through another construction route
    Rebuild(u16),
    /// repeat the most recent operation producing a result (same operator and operands)
    Repeat,
    /// two different operators on identical operands, back to back
    BinPair(BinOp, BinOp, u16, u16),
    /// subst(s1, f); subst(s2, f); subst(s1, f): first and third must be the same handle
    SubstAlt(u8, u8, u16),
    /// DDDMP export of two pool entries into a buffer (bit 0: ascii, bit 1: version 3.0) and
    /// import into the same manager: the imported handles must be the exported ones
    DumpRound(u16, u16, u8),
}

#[derive(Clone, Debug, Serialize, Deserialize)]
pub struct HCfg {
    pub n0: u32,
    pub order_keys: Vec<u16>,
    pub inner_cap: usize,
    pub cache_cap: usize,
    pub threads: u32,
}

#[derive(Clone, Copy, Debug, Default)]
pub struct Checks {
    /// pairwise canonicity over the pool after every step (C01)
    pub canon: bool,
    /// structural audit after every step (C03)
    pub structure: bool,
    /// ref-count audit + gc exactness (C05)
    pub rc: bool,
    /// node_count of results equals reference canonical size
    pub node_count: bool,
}

#[derive(Default, Debug, Clone)]
pub struct Stats {
    pub steps: u64,
    pub comparisons: u64,
    pub gcs: u64,
    pub gc_removed: u64,
    pub gc_with_live: u64,
    pub reorders: u64,
    pub reorders_effective: u64,
    pub add_vars: u64,
    pub rebuilds_after_event: u64,
    pub revived_after_gc: u64,
    pub audits: u64,
    pub audits_with_dead: u64,
    pub equal_pairs: u64,
    pub equal_pairs_after_event: u64,
    pub repeats: u64,
    pub repeats_after_event: u64,
    pub subst_reuse: u64,
    pub quant: u64,
    pub max_nodes: usize,
    pub level_ne_var: bool,
    pub excluded: u64,
    /// running digest over all results (table, and node count where checked)
    pub digest: u64,
    pub binpairs: u64,
    pub subst_alt: u64,
    pub dump_rounds: u64,
    pub dump_rounds_after_event: u64,
}

pub struct Entry<F> {
    pub f: F,
    pub t: TT,
    /// number of "events" (gc/reorder/add_vars) that had happened when created
    pub epoch: u64,
}

pub struct Hist<K: BoolKind> {
    pub mr: MRef<K>,
    pub n: u32,
    pub pool: Vec<Entry<K::F>>,
    pub substs: Vec<Option<(Subst<K::F>, Vec<u32>, Vec<TT>, u64)>>,
    pub checks: Checks,
    pub stats: Stats,
    pub epoch: u64,
    pub last: Option<Op>,
    pub max_pool: usize,
    /// tables of functions that were collected by a gc (for the "revived" class)
    pub collected: std::collections::HashSet<TT>,
    /// known finding "zbdd-reorder-nonempty" is open for the property under check:
    /// reorderings of a ZBDD manager holding live functions are excluded by construction
    pub skip_zbdd_reorder: bool,
}

pub const MAX_N: u32 = 8;

#[inline]
fn sel(i: u16, len: usize) -> usize {
    ((i as usize) * len) >> 16
}

fn mask_vars(mask: u16, n: u32) -> Vec<u32> {
    (0..n).filter(|v| (mask >> v) & 1 == 1).collect()
}

pub fn bool_operator(op: BinOp) -> BooleanOperator {
    match op {
        BinOp::And => BooleanOperator::And,
        BinOp::Or => BooleanOperator::Or,
        BinOp::Xor => BooleanOperator::Xor,
        BinOp::Equiv => BooleanOperator::Equiv,
        BinOp::Nand => BooleanOperator::Nand,
        BinOp::Nor => BooleanOperator::Nor,
        BinOp::Imp => BooleanOperator::Imp,
        BinOp::ImpStrict => BooleanOperator::ImpStrict,
    }
}

/// minimal number of inversions between `old` and any total order extending
/// the relative order `req` (brute force over permutations; n <= 8)
pub fn min_inversions(old: &[u32], req: &[u32]) -> usize {
    let n = old.len() as u32;
    let mut pos_old = vec![0usize; n as usize];
    for (l, &v) in old.iter().enumerate() {
        pos_old[v as usize] = l;
    }
    let mut best = usize::MAX;
    // enumerate permutations of levels via Heap's algorithm on a vec of vars
    fn rec(cur: &mut Vec<u32>, used: u32, n: u32, req_pos: &[i32], last_req: i32, pos_old: &[usize], inv: usize, best: &mut usize) {
        if inv >= *best {
            return;
        }
        if cur.len() as u32 == n {
            *best = inv;
            return;
        }
        for v in 0..n {
            if used & (1 << v) != 0 {
                continue;
            }
            let rp = req_pos[v as usize];
            if rp >= 0 && rp != last_req + 1 {
                continue; // requested variables must appear in requested order
            }
            // inversions added: placed-later vars (unused, != v) that were before v in old order
            let mut add = 0;
            for u in 0..n {
                if u != v && used & (1 << u) == 0 && pos_old[u as usize] < pos_old[v as usize] {
                    add += 1;
                }
            }
            cur.push(v);
            rec(cur, used | (1 << v), n, req_pos, if rp >= 0 { rp } else { last_req }, pos_old, inv + add, best);
            cur.pop();
        }
    }
    let mut req_pos = vec![-1i32; n as usize];
    for (i, &v) in req.iter().enumerate() {
        req_pos[v as usize] = i as i32;
    }
    rec(&mut vec![], 0, n, &req_pos, -1, &pos_old, 0, &mut best);
    best
}

pub fn inversions(old: &[u32], new: &[u32]) -> usize {
    let n = old.len();
    let mut pos_new = vec![0usize; n];
    for (l, &v) in new.iter().enumerate() {
        pos_new[v as usize] = l;
    }
    let mut c = 0;
    for i in 0..n {
        for j in i + 1..n {
            if pos_new[old[i] as usize] > pos_new[old[j] as usize] {
                c += 1;
            }
        }
    }
    c
}

fn hash_of<T: Hash>(t: &T) -> u64 {
    let mut h = std::collections::hash_map::DefaultHasher::new();
    t.hash(&mut h);
    h.finish()
}

impl<K: BoolKind> Hist<K> {
    pub fn new(cfg: &HCfg, checks: Checks) -> Self {
        let order = crate::c02::order_from_keys(cfg.n0, &cfg.order_keys);
        let mr = mk_manager::<K>(cfg.n0, &order, cfg.inner_cap, cfg.cache_cap, cfg.threads);
        let mut stats = Stats::default();
        stats.level_ne_var = order.iter().enumerate().any(|(l, &v)| l as u32 != v);
        Hist { mr, n: cfg.n0, pool: vec![], substs: (0..4).map(|_| None).collect(), checks, stats, epoch: 0, last: None, max_pool: 24, collected: Default::default(), skip_zbdd_reorder: false }
    }

    /// history on an existing (empty) manager with `n` variables - used by the fuzz target, which
    /// keeps one manager per process
    pub fn with_manager(mr: MRef<K>, n: u32, checks: Checks) -> Self {
        let mut stats = Stats::default();
        stats.level_ne_var = K::order(&mr).iter().enumerate().any(|(l, &v)| l as u32 != v);
        Hist { mr, n, pool: vec![], substs: (0..4).map(|_| None).collect(), checks, stats, epoch: 0, last: None, max_pool: 24, collected: Default::default(), skip_zbdd_reorder: false }
    }

    fn ext(&self, t: &TT, n2: u32) -> TT {
        if K::KIND == BKind::Zbdd { t.extend_zero(n2) } else { t.extend_dc(n2) }
    }

    fn push(&mut self, f: K::F, t: TT, what: &str) -> Result<(), String> {
        // compare result with the model through the independent interpreter
        self.stats.comparisons += 1;
        let got = K::table(&f, self.n);
        if got != t {
            return Err(format!("result-table: {what}: expected {t:?}, diagram interprets as {got:?}"));
        }
        if self.checks.node_count {
            let order = K::order(&self.mr);
            let exp = K::ref_count(&t, &order);
            let cnt = f.node_count();
            if cnt != exp {
                return Err(format!("node-count: {what}: node_count() = {cnt}, unique reduced diagram of {t:?} under order {order:?} has {exp}"));
            }
        }
        if self.collected.contains(&t) {
            self.stats.revived_after_gc += 1;
        }
        self.stats.digest = crate::engine::mix(self.stats.digest ^ hash_of(&(t, f.node_count(), K::order(&self.mr))));
        if self.pool.len() >= self.max_pool {
            // replace the oldest entry to keep the pool bounded
            self.pool.remove(0);
        }
        self.pool.push(Entry { f, t, epoch: self.epoch });
        Ok(())
    }

    fn get(&self, i: u16) -> Option<usize> {
        if self.pool.is_empty() { None } else { Some(sel(i, self.pool.len())) }
    }

    fn cube_set(&self, mask: u16) -> (K::F, Vec<u32>) {
        let vs = mask_vars(mask, self.n);
        let f = self.mr.with_manager_shared(|m| {
            let mut acc = K::F::t(m);
            for &v in &vs {
                acc = acc.and(&K::F::var(m, v).unwrap()).unwrap();
            }
            acc
        });
        (f, vs)
    }

    pub fn step(&mut self, op: &Op) -> Result<(), String> {
        self.stats.steps += 1;
        let n = self.n;
        let mut record_last = true;
        match op {
            Op::Const(b) => {
                let f = self.mr.with_manager_shared(|m| if *b { K::F::t(m) } else { K::F::f(m) });
                let t = if *b { TT::one(n) } else { TT::zero(n) };
                self.push(f, t, "const")?;
            }
            Op::Var(v) | Op::NotVar(v) => {
                if n == 0 {
                    return Ok(());
                }
                let v = sel(*v, n as usize) as u32;
                let neg = matches!(op, Op::NotVar(_));
                let f = self.mr.with_manager_shared(|m| if neg { K::F::not_var(m, v) } else { K::F::var(m, v) }).map_err(|_| "oom: var")?;
                let t = if neg { TT::var(n, v).not() } else { TT::var(n, v) };
                self.push(f, t, "var")?;
            }
            Op::Bin(bop, a, b) => {
                let (Some(a), Some(b)) = (self.get(*a), self.get(*b)) else { return Ok(()) };
                let r = crate::c02::apply_op(*bop, &self.pool[a].f, &self.pool[b].f);
                let t = bop.tt(&self.pool[a].t, &self.pool[b].t);
                self.push(r, t, &format!("{bop:?}"))?;
            }
            Op::Not(a) => {
                let Some(a) = self.get(*a) else { return Ok(()) };
                let r = self.pool[a].f.not().map_err(|_| "oom: not")?;
                let t = self.pool[a].t.not();
                self.push(r, t, "not")?;
            }
            Op::Ite(a, b, c) => {
                let (Some(a), Some(b), Some(c)) = (self.get(*a), self.get(*b), self.get(*c)) else { return Ok(()) };
                let r = self.pool[a].f.ite(&self.pool[b].f, &self.pool[c].f).map_err(|_| "oom: ite")?;
                let t = self.pool[a].t.ite(&self.pool[b].t, &self.pool[c].t);
                self.push(r, t, "ite")?;
            }
            Op::Quant(q, a, mask) => {
                let Some(a) = self.get(*a) else { return Ok(()) };
                let (vf, vs) = self.cube_set(*mask);
                let Some(r) = K::quant(*q % 3, &self.pool[a].f, &vf) else { return Ok(()) };
                let r = r.map_err(|_| "oom: quant")?;
                let mut t = self.pool[a].t;
                for &v in &vs {
                    t = match *q % 3 {
                        0 => t.exists(v),
                        1 => t.forall(v),
                        _ => t.unique(v),
                    };
                }
                self.stats.quant += 1;
                self.push(r, t, &format!("quant{}", q % 3))?;
            }
            Op::ApplyQuant(q, bop, a, b, mask) => {
                let (Some(a), Some(b)) = (self.get(*a), self.get(*b)) else { return Ok(()) };
                let (vf, vs) = self.cube_set(*mask);
                let Some(r) = K::apply_quant(*q % 3, bool_operator(*bop), &self.pool[a].f, &self.pool[b].f, &vf) else { return Ok(()) };
                let r = r.map_err(|_| "oom: apply_quant")?;
                let mut t = bop.tt(&self.pool[a].t, &self.pool[b].t);
                for &v in &vs {
                    t = match *q % 3 {
                        0 => t.exists(v),
                        1 => t.forall(v),
                        _ => t.unique(v),
                    };
                }
                self.stats.quant += 1;
                self.push(r, t, &format!("apply_quant{}_{bop:?}", q % 3))?;
            }
            Op::Restrict(a, pos, neg) => {
                let Some(a) = self.get(*a) else { return Ok(()) };
                let neg = *neg & !*pos;
                let cube = self.mr.with_manager_shared(|m| {
                    let mut acc = K::F::t(m);
                    for v in (0..n).rev() {
                        if (*pos >> v) & 1 == 1 {
                            acc = acc.and(&K::F::var(m, v).unwrap()).unwrap();
                        } else if (neg >> v) & 1 == 1 {
                            acc = acc.and(&K::F::not_var(m, v).unwrap()).unwrap();
                        }
                    }
                    acc
                });
                let r = self.pool[a].f.restrict(&cube).map_err(|_| "oom: restrict")?;
                let mut t = self.pool[a].t;
                for v in 0..n {
                    if (*pos >> v) & 1 == 1 {
                        t = t.cof(v, true);
                    } else if (neg >> v) & 1 == 1 {
                        t = t.cof(v, false);
                    }
                }
                self.push(r, t, "restrict")?;
            }
            Op::NewSubst(slot, mask, repl) => {
                record_last = false;
                if self.pool.is_empty() || K::KIND == BKind::Zbdd {
                    return Ok(());
                }
                let vs = mask_vars(*mask, n);
                if vs.is_empty() || repl.is_empty() {
                    return Ok(());
                }
                let mut fs = vec![];
                let mut ts = vec![];
                for (i, _) in vs.iter().enumerate() {
                    let idx = sel(repl[i % repl.len()], self.pool.len());
                    fs.push(self.pool[idx].f.clone());
                    ts.push(self.pool[idx].t);
                }
                let slot = (*slot as usize) % self.substs.len();
                // odd slots: the substitution object (and with it its id) is created on a
                // freshly spawned thread, so alternating slots mixes ids handed out to
                // different threads
                let s = if slot % 2 == 1 {
                    let vs2 = vs.clone();
                    std::thread::scope(|sc| sc.spawn(move || Subst::new(vs2, fs)).join().unwrap())
                } else {
                    Subst::new(vs.clone(), fs)
                };
                self.substs[slot] = Some((s, vs, ts, 0));
            }
            Op::Subst(slot, a) => {
                let Some(a) = self.get(*a) else { return Ok(()) };
                let f = self.pool[a].f.clone();
                let t = self.pool[a].t;
                if let Some((r, rt)) = self.apply_subst(*slot, &f, &t)? {
                    self.push(r, rt, "substitute")?;
                }
            }
            Op::Cofactor(a, which) => {
                let Some(a) = self.get(*a) else { return Ok(()) };
                let rl = K::root_level(&self.pool[a].f);
                let r = if *which { self.pool[a].f.cofactor_true() } else { self.pool[a].f.cofactor_false() };
                match (rl, r) {
                    (None, None) => {}
                    (Some(l), Some(r)) => {
                        let v = K::order(&self.mr)[l as usize];
                        let t = if K::KIND == BKind::Zbdd { self.pool[a].t.zcof(v, *which) } else { self.pool[a].t.cof(v, *which) };
                        self.push(r, t, "cofactor")?;
                    }
                    (rl, r) => return Err(format!("cofactor-none: root level {rl:?} but cofactor is_some = {}", r.is_some())),
                }
            }
            Op::Clone(a) => {
                record_last = false;
                let Some(a) = self.get(*a) else { return Ok(()) };
                let e = Entry { f: self.pool[a].f.clone(), t: self.pool[a].t, epoch: self.pool[a].epoch };
                if self.pool.len() < self.max_pool {
                    self.pool.push(e);
                }
            }
            Op::Drop(a) => {
                record_last = false;
                let Some(a) = self.get(*a) else { return Ok(()) };
                self.pool.remove(a);
            }
            Op::DropOnThread(a) => {
                record_last = false;
                let Some(a) = self.get(*a) else { return Ok(()) };
                let e = self.pool.remove(a);
                std::thread::spawn(move || drop(e)).join().map_err(|_| "drop on thread panicked")?;
            }
            Op::DropAll => {
                record_last = false;
                self.pool.clear();
                for s in &mut self.substs {
                    *s = None;
                }
            }
            Op::Gc => {
                record_last = false;
                self.gc()?;
            }
            Op::Churn(k) => {
                record_last = false;
                if n == 0 {
                    return Ok(());
                }
                let mut tmp = vec![];
                let vs = vars::<K>(&self.mr, n);
                let mut acc = vs[0].clone();
                for i in 0..(*k as usize % 24) {
                    let v = &vs[(i * 7 + *k as usize) % n as usize];
                    acc = if i % 3 == 0 { acc.xor(v) } else if i % 3 == 1 { acc.or(&v.not().unwrap()) } else { acc.and(v) }.map_err(|_| "oom: churn")?;
                    tmp.push(acc.clone());
                }
                drop(tmp);
            }
            Op::AddVars(k) => {
                record_last = false;
                let k = (*k as u32 % 3).min(MAX_N - n.min(MAX_N));
                if k == 0 {
                    return Ok(());
                }
                let range = self.mr.with_manager_exclusive(|m| m.add_vars(k));
                if range != (n..n + k) {
                    return Err(format!("add-vars: add_vars({k}) returned {range:?}, expected {:?}", n..n + k));
                }
                self.n = n + k;
                let n2 = self.n;
                for i in 0..self.pool.len() {
                    let t = self.pool[i].t;
                    self.pool[i].t = self.ext(&t, n2);
                }
                self.epoch += 1;
                self.stats.add_vars += 1;
                self.verify_pool("after add_vars")?;
            }
            Op::SetOrder(keys, mask, seq) => {
                record_last = false;
                if n < 2 {
                    return Ok(());
                }
                if K::KIND == BKind::Zbdd && self.skip_zbdd_reorder && !self.pool.is_empty() {
                    self.stats.excluded += 1;
                    return Ok(());
                }
                let mut req: Vec<u32> = mask_vars(*mask, n);
                req.sort_by_key(|&v| (keys.get(v as usize).copied().unwrap_or(0), v));
                let old = K::order(&self.mr);
                K::set_var_order(&self.mr, &req, *seq);
                let new = K::order(&self.mr);
                self.stats.reorders += 1;
                if new != old {
                    self.stats.reorders_effective += 1;
                    self.epoch += 1;
                }
                if new.iter().enumerate().any(|(l, &v)| l as u32 != v) {
                    self.stats.level_ne_var = true;
                }
                // requested relative order
                if req.len() > 1 {
                    let pos: HashMap<u32, usize> = new.iter().enumerate().map(|(l, &v)| (v, l)).collect();
                    for w in req.windows(2) {
                        if pos[&w[0]] >= pos[&w[1]] {
                            return Err(format!("reorder-order: requested {req:?}, got level order {new:?}"));
                        }
                    }
                    let inv = inversions(&old, &new);
                    let best = min_inversions(&old, &req);
                    if inv != best {
                        return Err(format!("reorder-minimal: from {old:?} with request {req:?}: new order {new:?} needs {inv} adjacent swaps, minimum is {best}"));
                    }
                } else if new != old {
                    return Err(format!("reorder-order: request {req:?} with <= 1 variable changed the order {old:?} -> {new:?}"));
                }
                self.verify_pool("after set_var_order")?;
            }
            Op::Rebuild(a) => {
                record_last = false;
                let Some(a) = self.get(*a) else { return Ok(()) };
                let t = self.pool[a].t;
                let vs = vars::<K>(&self.mr, n);
                let r = if self.stats.steps % 2 == 0 { from_minterms::<K>(&self.mr, &vs, &t) } else { from_shannon::<K>(&self.mr, &vs, &t, &mut HashMap::new()) };
                if self.pool[a].epoch < self.epoch {
                    self.stats.rebuilds_after_event += 1;
                }
                self.stats.comparisons += 1;
                if r != self.pool[a].f {
                    let got = K::table(&r, n);
                    return Err(if got == t { format!("noncanonical: rebuilding {t:?} through another route gives a handle != the existing one") } else { format!("result-table: rebuild of {t:?} gives {got:?}") });
                }
                self.push(r, t, "rebuild")?;
            }
            Op::BinPair(o1, o2, a, b) => {
                record_last = false;
                let (Some(ai), Some(bi)) = (self.get(*a), self.get(*b)) else { return Ok(()) };
                let (fa, fb) = (self.pool[ai].f.clone(), self.pool[bi].f.clone());
                let (ta, tb) = (self.pool[ai].t, self.pool[bi].t);
                let r1 = crate::c02::apply_op(*o1, &fa, &fb);
                let r2 = crate::c02::apply_op(*o2, &fa, &fb);
                self.stats.binpairs += 1;
                self.push(r1, o1.tt(&ta, &tb), &format!("{o1:?}"))?;
                self.push(r2, o2.tt(&ta, &tb), &format!("{o2:?} (right after {o1:?} on the same operands)"))?;
            }
            Op::SubstAlt(s1, s2, a) => {
                record_last = false;
                let Some(ai) = self.get(*a) else { return Ok(()) };
                let f = self.pool[ai].f.clone();
                let t = self.pool[ai].t;
                let Some((r1, t1)) = self.apply_subst(*s1, &f, &t)? else { return Ok(()) };
                let r2 = self.apply_subst(*s2, &f, &t)?;
                let Some((r3, t3)) = self.apply_subst(*s1, &f, &t)? else { return Ok(()) };
                self.stats.subst_alt += 1;
                self.stats.comparisons += 1;
                let same = r1 == r3;
                self.push(r1, t1, "substitute (1st)")?;
                if let Some((r2, t2)) = r2 {
                    self.push(r2, t2, "substitute (other substitution in between)")?;
                }
                self.push(r3, t3, "substitute (same substitution again)")?;
                if !same {
                    return Err("noncanonical: subst(s1,f) before and after subst(s2,f) give different handles".into());
                }
            }
            Op::DumpRound(a, b, flags) => {
                record_last = false;
                let (Some(ai), Some(bi)) = (self.get(*a), self.get(*b)) else { return Ok(()) };
                let (fa, fb) = (self.pool[ai].f.clone(), self.pool[bi].f.clone());
                let (ta, tb) = (self.pool[ai].t, self.pool[bi].t);
                let old = self.pool[ai].epoch < self.epoch || self.pool[bi].epoch < self.epoch;
                let settings = crate::kinds::DdSettings { ascii: flags & 1 != 0, v3: flags & 2 != 0, strict: false, diagram_name: String::new() };
                let (file, res) = K::dddmp_export(&self.mr, &settings, &[&fa, &fb], None);
                if let Err(e) = res {
                    return Err(format!("export-error: DDDMP export of two live handles failed: {e}"));
                }
                let (_, imported) = K::dddmp_import(&self.mr, &file, None).map_err(|e| format!("own-export-rejected: importer rejects the exporter's file: {e}"))?;
                if imported.len() != 2 {
                    return Err(format!("roots: exported 2 roots, imported {}", imported.len()));
                }
                self.stats.dump_rounds += 1;
                if old {
                    self.stats.dump_rounds_after_event += 1;
                }
                let mut it = imported.into_iter();
                for (orig, t) in [(fa, ta), (fb, tb)] {
                    let r = it.next().unwrap();
                    self.stats.comparisons += 1;
                    if r != orig {
                        let got = K::table(&r, n);
                        return Err(if got == t { format!("noncanonical: DDDMP import of the exported {t:?} into the same manager gives a handle != the exported one") } else { format!("result-table: DDDMP export + import of {t:?} gives {got:?}") });
                    }
                    self.push(r, t, "dddmp round trip")?;
                }
            }
            Op::Repeat => {
                record_last = false;
                let Some(last) = self.last.clone() else { return Ok(()) };
                // the result of `last` is the last pool entry iff nothing was pushed since; we
                // re-execute and compare with an entry of equal table if present
                let before = self.pool.len();
                let epoch_before = self.pool.last().map(|e| e.epoch);
                self.step(&last)?;
                self.stats.steps -= 1;
                self.stats.repeats += 1;
                if self.pool.len() >= 2 && before >= 1 {
                    let l = self.pool.len();
                    // find earlier entry with same table
                    let t = self.pool[l - 1].t;
                    if let Some(j) = (0..l - 1).rev().find(|&j| self.pool[j].t == t) {
                        self.stats.comparisons += 1;
                        if self.pool[j].f != self.pool[l - 1].f {
                            return Err(format!("noncanonical: repeating {last:?} yields a handle different from the earlier one for table {t:?}"));
                        }
                        if epoch_before.map_or(false, |e| e < self.epoch) {
                            self.stats.repeats_after_event += 1;
                        }
                    }
                }
            }
        }
        if record_last {
            self.last = Some(op.clone());
        }
        self.after_step()
    }

    fn apply_subst(&mut self, slot: u8, f: &K::F, src: &TT) -> Result<Option<(K::F, TT)>, String> {
        let n = self.n;
        let slot = (slot as usize) % self.substs.len();
        let Some((s, vs, ts, uses)) = &mut self.substs[slot] else { return Ok(None) };
        let Some(r) = K::substitute(f, s) else { return Ok(None) };
        let r = r.map_err(|_| "oom: substitute")?;
        *uses += 1;
        if *uses > 1 {
            self.stats.subst_reuse += 1;
        }
        // replacement tables may be over fewer variables if add_vars happened since
        let ts: Vec<TT> = ts.iter().map(|t| t.extend_dc(n)).collect();
        let src = src.extend_dc(n);
        let t = TT::from_fn(n, |asg| {
            let mut b = asg;
            for (i, &v) in vs.iter().enumerate() {
                if ts[i].get(asg) {
                    b |= 1 << v;
                } else {
                    b &= !(1 << v);
                }
            }
            src.get(b)
        });
        Ok(Some((r, t)))
    }

    pub fn gc(&mut self) -> Result<(), String> {
        let handles: Vec<&K::F> = self.pool_handles();
        let before = if self.checks.rc { Some(K::audit(&self.mr, &handles, true).map_err(|e| format!("audit-rc(before gc): {e}"))?) } else { None };
        drop(handles);
        let nodes_before = K::num_inner_nodes(&self.mr);
        let removed = K::gc(&self.mr);
        let nodes_after = K::num_inner_nodes(&self.mr);
        self.stats.gcs += 1;
        self.stats.gc_removed += removed as u64;
        if removed > 0 && !self.pool.is_empty() {
            self.stats.gc_with_live += 1;
        }
        if removed > 0 {
            self.epoch += 1;
        }
        if nodes_before - nodes_after != removed {
            return Err(format!("gc-count: gc() returned {removed} but num_inner_nodes went {nodes_before} -> {nodes_after}"));
        }
        if let Some(b) = before {
            if removed != b.unreachable {
                return Err(format!("gc-exact: {} stored nodes were unreachable from handles before gc(), gc() removed {removed}", b.unreachable));
            }
            let handles: Vec<&K::F> = self.pool_handles();
            let after = K::audit(&self.mr, &handles, true).map_err(|e| format!("audit-rc(after gc): {e}"))?;
            if after.unreachable != 0 || after.dead_nodes != 0 {
                return Err(format!("gc-exact: {} unreachable nodes remain after gc()", after.unreachable));
            }
        }
        self.verify_pool("after gc")
    }

    fn pool_handles(&self) -> Vec<&K::F> {
        let mut handles: Vec<&K::F> = self.pool.iter().map(|e| &e.f).collect();
        for s in self.substs.iter().flatten() {
            // Subst owns clones of the replacement functions
            let _ = s;
        }
        handles.extend(self.subst_handles());
        handles
    }

    fn subst_handles(&self) -> Vec<&K::F> {
        use oxidd::Substitution;
        let mut v = vec![];
        for s in self.substs.iter().flatten() {
            for (_, r) in (&s.0).pairs() {
                v.push(r);
            }
        }
        v
    }

    /// all pooled handles still denote their model table
    pub fn verify_pool(&mut self, when: &str) -> Result<(), String> {
        for (i, e) in self.pool.iter().enumerate() {
            self.stats.comparisons += 1;
            let got = K::table(&e.f, self.n);
            if got != e.t {
                return Err(format!("preserve: {when}: pool[{i}] should denote {:?} but interprets as {got:?}", e.t));
            }
        }
        Ok(())
    }

    fn after_step(&mut self) -> Result<(), String> {
        if self.checks.canon {
            let l = self.pool.len();
            for i in 0..l {
                for j in i + 1..l {
                    self.stats.comparisons += 1;
                    let (a, b) = (&self.pool[i], &self.pool[j]);
                    let eqt = a.t == b.t;
                    let eqh = a.f == b.f;
                    if eqt != eqh {
                        return Err(if eqt {
                            format!("noncanonical: pool[{i}] and pool[{j}] both denote {:?} but handles differ", a.t)
                        } else {
                            format!("spurious-eq: pool[{i}] ({:?}) == pool[{j}] ({:?})", a.t, b.t)
                        });
                    }
                    let ord = a.f.cmp(&b.f);
                    if (ord == std::cmp::Ordering::Equal) != eqh || b.f.cmp(&a.f) != ord.reverse() {
                        return Err(format!("ord: cmp inconsistent with == for pool[{i}], pool[{j}]"));
                    }
                    if eqh {
                        self.stats.equal_pairs += 1;
                        if a.epoch != b.epoch {
                            self.stats.equal_pairs_after_event += 1;
                        }
                        if hash_of(&a.f) != hash_of(&b.f) {
                            return Err(format!("hash: equal handles pool[{i}], pool[{j}] hash differently"));
                        }
                    }
                }
            }
        }
        if self.checks.structure || self.checks.rc {
            let handles = self.pool_handles();
            let info = K::audit(&self.mr, &handles, self.checks.rc).map_err(|e| format!("audit: {e}"))?;
            self.stats.audits += 1;
            if info.unreachable > 0 && info.nonempty_levels >= 2 {
                self.stats.audits_with_dead += 1;
            }
            self.stats.max_nodes = self.stats.max_nodes.max(info.inner_nodes);
        }
        Ok(())
    }

    pub fn run(&mut self, ops: &[Op]) -> Result<(), String> {
        for (i, op) in ops.iter().enumerate() {
            self.step(op).map_err(|e| format!("{} @step {i} {op:?}", e))?;
        }
        Ok(())
    }
}

// ---------------------------------------------------------------------------
// strategies
// ---------------------------------------------------------------------------

pub fn binop_strategy() -> impl Strategy<Value = BinOp> {
    (0usize..8).prop_map(|i| BINOPS[i])
}

#[derive(Clone, Copy, Debug)]
pub struct Weights {
    pub apply: u32,
    pub quant: u32,
    pub subst: u32,
    pub lifecycle: u32,
    pub gc: u32,
    pub reorder: u32,
    pub add_vars: u32,
    pub rebuild: u32,
    pub repeat: u32,
}

impl Default for Weights {
    fn default() -> Self {
        Weights { apply: 30, quant: 6, subst: 6, lifecycle: 12, gc: 6, reorder: 4, add_vars: 2, rebuild: 6, repeat: 4 }
    }
}

pub fn op_strategy(w: Weights) -> BoxedStrategy<Op> {
    let s = any::<u16>;
    prop_oneof![
        2 => any::<bool>().prop_map(Op::Const),
        (w.apply / 3).max(1) => s().prop_map(Op::Var),
        (w.apply / 6).max(1) => s().prop_map(Op::NotVar),
        (w.apply).max(1) => (binop_strategy(), s(), s()).prop_map(|(o, a, b)| Op::Bin(o, a, b)),
        (w.apply / 6).max(1) => s().prop_map(Op::Not),
        (w.apply / 4).max(1) => (s(), s(), s()).prop_map(|(a, b, c)| Op::Ite(a, b, c)),
        (w.quant).max(1) => (0u8..3, s(), s()).prop_map(|(q, a, m)| Op::Quant(q, a, m)),
        (w.quant).max(1) => (0u8..3, binop_strategy(), s(), s(), s()).prop_map(|(q, o, a, b, m)| Op::ApplyQuant(q, o, a, b, m)),
        (w.quant).max(1) => (s(), s(), s()).prop_map(|(a, p, n)| Op::Restrict(a, p, n)),
        (w.subst / 2).max(1) => (0u8..4, s(), proptest::collection::vec(s(), 1..4)).prop_map(|(sl, m, r)| Op::NewSubst(sl, m, r)),
        (w.subst).max(1) => (0u8..4, s()).prop_map(|(sl, a)| Op::Subst(sl, a)),
        (w.apply / 8).max(1) => (s(), any::<bool>()).prop_map(|(a, b)| Op::Cofactor(a, b)),
        (w.lifecycle / 3).max(1) => s().prop_map(Op::Clone),
        (w.lifecycle).max(1) => s().prop_map(Op::Drop),
        (w.lifecycle / 6).max(1) => s().prop_map(Op::DropOnThread),
        (w.lifecycle / 12).max(1) => Just(Op::DropAll),
        (w.gc).max(1) => Just(Op::Gc),
        (w.gc / 2).max(1) => any::<u8>().prop_map(Op::Churn),
        (w.add_vars).max(1) => (1u8..3).prop_map(Op::AddVars),
        (w.reorder).max(1) => (proptest::collection::vec(s(), 8), s(), any::<bool>()).prop_map(|(k, m, q)| Op::SetOrder(k, m, q)),
        (w.rebuild).max(1) => s().prop_map(Op::Rebuild),
        (w.repeat).max(1) => Just(Op::Repeat),
        (w.repeat).max(1) => (binop_strategy(), binop_strategy(), s(), s()).prop_map(|(o1, o2, a, b)| Op::BinPair(o1, o2, a, b)),
        (w.subst / 2).max(1) => (0u8..4, 0u8..4, s()).prop_map(|(s1, s2, a)| Op::SubstAlt(s1, s2, a)),
        (w.rebuild / 2).max(1) => (s(), s(), 0u8..4).prop_map(|(a, b, f)| Op::DumpRound(a, b, f)),
    ]
    .boxed()
}

#[derive(Clone, Debug, Serialize, Deserialize)]
pub struct Case {
    pub cfg: HCfg,
    pub ops: Vec<Op>,
}

pub fn case_strategy(w: Weights, nmin: u32, nmax: u32, len: std::ops::Range<usize>, threads: Vec<u32>, caches: Vec<usize>) -> impl Strategy<Value = Case> {
    (nmin..=nmax, proptest::collection::vec(any::<u16>(), 8), proptest::sample::select(threads), proptest::sample::select(caches), proptest::collection::vec(op_strategy(w), len))
        .prop_map(|(n0, order_keys, threads, cache_cap, ops)| Case { cfg: HCfg { n0, order_keys, inner_cap: 1 << 14, cache_cap, threads }, ops })
}
