//! History engine for the value-table kinds (MTBDD<I64>, MTBDD<F64>, TDD).

use std::collections::HashMap;
use std::hash::{Hash, Hasher};
use std::io::Write;

use oxidd::Function;
use proptest::prelude::*;
use serde::{Deserialize, Serialize};
use serde_json::{Value, json};

use crate::engine::*;
use crate::hist::{Checks, Stats, inversions, min_inversions};
use crate::hrun::{CaseStats, category};
use crate::vkinds::*;
use crate::vmodel::*;

#[derive(Clone, Debug, Serialize, Deserialize, PartialEq)]
pub enum VOp {
    Const(u16),
    Var(u16),
    Bin(u8, u16, u16),
    Not(u16),
    Ite(u16, u16, u16),
    Restrict(u16, u16, u16),
    Cofactor(u16, u8),
    Clone(u16),
    Drop(u16),
    DropAll,
    Gc,
    Churn(u8),
    AddVars(u8),
    SetOrder(Vec<u16>, u16, bool),
    Rebuild(u16),
    Repeat,
    BinPair(u8, u8, u16, u16),
}

#[derive(Clone, Debug, Serialize, Deserialize)]
pub struct VCfg {
    pub n0: u32,
    pub order_keys: Vec<u16>,
    pub cache_cap: usize,
    pub threads: u32,
}

#[derive(Clone, Debug, Serialize, Deserialize)]
pub struct VCase {
    pub cfg: VCfg,
    pub ops: Vec<VOp>,
}

pub struct VEntry<K: VKind> {
    pub f: K::F,
    pub t: VT<K::V>,
    pub epoch: u64,
}

pub struct VHist<K: VKind> {
    pub mr: VMRef<K>,
    pub n: u32,
    pub max_n: u32,
    pub pool: Vec<VEntry<K>>,
    pub checks: Checks,
    pub stats: Stats,
    pub epoch: u64,
    pub last: Option<VOp>,
}

#[inline]
fn sel(i: u16, len: usize) -> usize {
    ((i as usize) * len) >> 16
}

fn hash_of<T: Hash>(t: &T) -> u64 {
    let mut h = std::collections::hash_map::DefaultHasher::new();
    t.hash(&mut h);
    h.finish()
}

pub fn vmk_manager<K: VKind>(n: u32, order: &[u32], cache: usize, threads: u32) -> VMRef<K> {
    let mr = K::new_manager(1 << 14, 1 << 10, cache, threads);
    K::add_vars(&mr, n);
    if !order.iter().enumerate().all(|(i, &v)| i as u32 == v) {
        K::set_var_order(&mr, order, true);
    }
    assert_eq!(K::order(&mr), order);
    mr
}

/// handles usable as two-valued conditions on variable v, with the digit each selects
pub fn conds<K: VKind>(mr: &VMRef<K>, v: u32) -> Result<Vec<(K::F, usize)>, String> {
    let x = K::var(mr, v)?;
    if !K::IS_TDD {
        return Ok(vec![(x, 1)]);
    }
    // TDD: T_ind(x) = not(x -> not x), F_ind(x) = not(not x -> x)
    let nx = K::not(&x).unwrap()?;
    let t_ind = K::not(&K::bin(6, &x, &nx)?).unwrap()?;
    let f_ind = K::not(&K::bin(6, &nx, &x)?).unwrap()?;
    Ok(vec![(t_ind, 2), (f_ind, 0)])
}

/// build a function from its table by nested ite over two-valued conditions
pub fn vbuild<K: VKind>(mr: &VMRef<K>, t: &VT<K::V>, memo: &mut HashMap<VT<K::V>, K::F>) -> Result<K::F, String> {
    if let Some(c) = t.is_const() {
        return K::constant(mr, c);
    }
    if let Some(f) = memo.get(t) {
        return Ok(f.clone());
    }
    let v = (0..t.n).rev().find(|&v| t.depends(v)).unwrap();
    let cs = conds::<K>(mr, v)?;
    let r = if !K::IS_TDD {
        let hi = vbuild::<K>(mr, &t.cof(v, 1), memo)?;
        let lo = vbuild::<K>(mr, &t.cof(v, 0), memo)?;
        K::ite(&cs[0].0, &hi, &lo)?
    } else {
        let ft = vbuild::<K>(mr, &t.cof(v, 2), memo)?;
        let fu = vbuild::<K>(mr, &t.cof(v, 1), memo)?;
        let ff = vbuild::<K>(mr, &t.cof(v, 0), memo)?;
        let inner = K::ite(&cs[1].0, &ff, &fu)?;
        K::ite(&cs[0].0, &ft, &inner)?
    };
    memo.insert(t.clone(), r.clone());
    Ok(r)
}

impl<K: VKind> VHist<K> {
    pub fn new(cfg: &VCfg, checks: Checks) -> Self {
        let order = crate::c02::order_from_keys(cfg.n0, &cfg.order_keys);
        let mr = vmk_manager::<K>(cfg.n0, &order, cfg.cache_cap, cfg.threads);
        let mut stats = Stats::default();
        stats.level_ne_var = order.iter().enumerate().any(|(l, &v)| l as u32 != v);
        VHist { mr, n: cfg.n0, max_n: if K::IS_TDD { 4 } else { 6 }, pool: vec![], checks, stats, epoch: 0, last: None }
    }

    fn push(&mut self, f: K::F, t: VT<K::V>, what: &str) -> Result<(), String> {
        self.stats.comparisons += 1;
        let got = K::table(&f, self.n);
        if got != t {
            return Err(format!("result-table: {what}: expected {:?}, diagram interprets as {:?}", t.vals, got.vals));
        }
        let order = K::order(&self.mr);
        if self.checks.node_count {
            let exp = t.ref_node_count(&order);
            let cnt = f.node_count();
            if cnt != exp {
                return Err(format!("node-count: {what}: node_count() = {cnt}, reference reduced diagram under {order:?} has {exp}"));
            }
        }
        self.stats.digest = mix(self.stats.digest ^ hash_of(&(&t, f.node_count(), &order)));
        if self.pool.len() >= 20 {
            self.pool.remove(0);
        }
        self.pool.push(VEntry { f, t, epoch: self.epoch });
        Ok(())
    }

    fn get(&self, i: u16) -> Option<usize> {
        if self.pool.is_empty() { None } else { Some(sel(i, self.pool.len())) }
    }

    pub fn step(&mut self, op: &VOp) -> Result<(), String> {
        use oxidd::Function;
        self.stats.steps += 1;
        let n = self.n;
        let base = K::BASE;
        let mut record = true;
        match op {
            VOp::Const(i) => {
                let pal = K::palette();
                let v = pal[sel(*i, pal.len())].clone();
                let f = K::constant(&self.mr, &v)?;
                self.push(f, VT::constant(n, base, v), "constant")?;
            }
            VOp::Var(i) => {
                if n == 0 {
                    return Ok(());
                }
                let v = sel(*i, n as usize) as u32;
                let f = K::var(&self.mr, v)?;
                let t = VT::from_fn(n, base, |idx| K::var_value((idx / ipow(base, v)) % base));
                self.push(f, t, "var")?;
            }
            VOp::Bin(o, a, b) => {
                let (Some(a), Some(b)) = (self.get(*a), self.get(*b)) else { return Ok(()) };
                let o = *o as usize % K::bin_names().len();
                let r = K::bin(o, &self.pool[a].f, &self.pool[b].f)?;
                let t = self.pool[a].t.map2(&self.pool[b].t, |x, y| K::bin_model(o, x, y));
                self.push(r, t, K::bin_names()[o])?;
            }
            VOp::Not(a) => {
                let Some(a) = self.get(*a) else { return Ok(()) };
                let Some(r) = K::not(&self.pool[a].f) else { return Ok(()) };
                let t = self.pool[a].t.map1(K::not_model);
                self.push(r?, t, "not")?;
            }
            VOp::Ite(c, a, b) => {
                let (Some(ci), Some(a), Some(b)) = (self.get(*c), self.get(*a), self.get(*b)) else { return Ok(()) };
                let (cf, ct) = if self.pool[ci].t.vals.iter().all(K::cond_ok) {
                    (self.pool[ci].f.clone(), self.pool[ci].t.clone())
                } else {
                    if n == 0 {
                        return Ok(());
                    }
                    let v = sel(*c, n as usize) as u32;
                    (K::var(&self.mr, v)?, VT::from_fn(n, base, |idx| K::var_value((idx / ipow(base, v)) % base)))
                };
                let r = K::ite(&cf, &self.pool[a].f, &self.pool[b].f)?;
                let t = ct.map3(&self.pool[a].t, &self.pool[b].t, K::ite_model);
                self.push(r, t, "ite")?;
            }
            VOp::Restrict(a, pos, neg) => {
                if K::IS_TDD {
                    return Ok(());
                }
                let Some(a) = self.get(*a) else { return Ok(()) };
                let neg = *neg & !*pos;
                // cube as a 0-1-valued function: product of literals (var / 1 - var) built with ite
                let one = K::constant(&self.mr, &K::var_value(1))?;
                let zero = K::constant(&self.mr, &K::var_value(0))?;
                let mut cube = one.clone();
                for v in 0..n {
                    let x = K::var(&self.mr, v)?;
                    if (*pos >> v) & 1 == 1 {
                        cube = K::ite(&x, &cube, &zero)?;
                    } else if (neg >> v) & 1 == 1 {
                        cube = K::ite(&x, &zero, &cube)?;
                    }
                }
                let r = K::restrict(&self.pool[a].f, &cube).unwrap()?;
                let mut t = self.pool[a].t.clone();
                for v in 0..n {
                    if (*pos >> v) & 1 == 1 {
                        t = t.cof(v, 1);
                    } else if (neg >> v) & 1 == 1 {
                        t = t.cof(v, 0);
                    }
                }
                self.push(r, t, "restrict")?;
            }
            VOp::Cofactor(a, which) => {
                let Some(a) = self.get(*a) else { return Ok(()) };
                let Some(c) = K::cofactors(&self.pool[a].f) else { return Ok(()) };
                let rl = K::root_level(&self.pool[a].f);
                match (rl, c) {
                    (None, None) => {}
                    (Some(l), Some(cs)) if cs.len() == base => {
                        let v = K::order(&self.mr)[l as usize];
                        let w = *which as usize % base;
                        // child order: true, (unknown,) false  => digit = base-1-w
                        let t = self.pool[a].t.cof(v, base - 1 - w);
                        self.push(cs[w].clone(), t, "cofactor")?;
                    }
                    (rl, c) => return Err(format!("cofactor-none: root level {rl:?}, cofactors = {:?} (cofactor_true/unknown/false must agree with cofactors())", c.map(|c| c.len()))),
                }
            }
            VOp::Clone(a) => {
                record = false;
                let Some(a) = self.get(*a) else { return Ok(()) };
                if self.pool.len() < 20 {
                    self.pool.push(VEntry { f: self.pool[a].f.clone(), t: self.pool[a].t.clone(), epoch: self.pool[a].epoch });
                }
            }
            VOp::Drop(a) => {
                record = false;
                let Some(a) = self.get(*a) else { return Ok(()) };
                self.pool.remove(a);
            }
            VOp::DropAll => {
                record = false;
                self.pool.clear();
            }
            VOp::Gc => {
                record = false;
                self.gc()?;
            }
            VOp::Churn(k) => {
                record = false;
                if n == 0 {
                    return Ok(());
                }
                let pal = K::palette();
                let mut acc = K::var(&self.mr, 0)?;
                let mut tmp = vec![];
                for i in 0..(*k as usize % 16) {
                    let x = K::var(&self.mr, ((i * 5 + *k as usize) % n as usize) as u32)?;
                    let c = K::constant(&self.mr, &pal[(i + *k as usize) % pal.len().min(6)])?;
                    acc = K::bin(i % K::bin_names().len(), &acc, &if i % 2 == 0 { x } else { c })?;
                    tmp.push(acc.clone());
                }
            }
            VOp::AddVars(k) => {
                record = false;
                let k = (*k as u32 % 3).min(self.max_n - n.min(self.max_n));
                if k == 0 {
                    return Ok(());
                }
                let r = K::add_vars(&self.mr, k);
                if r != (n..n + k) {
                    return Err(format!("add-vars: returned {r:?}"));
                }
                self.n = n + k;
                let n2 = self.n;
                for e in self.pool.iter_mut() {
                    e.t = e.t.extend(n2);
                }
                self.epoch += 1;
                self.stats.add_vars += 1;
                self.verify_pool("after add_vars")?;
            }
            VOp::SetOrder(keys, mask, seq) => {
                record = false;
                if n < 2 {
                    return Ok(());
                }
                let mut req: Vec<u32> = (0..n).filter(|v| (mask >> v) & 1 == 1).collect();
                req.sort_by_key(|&v| (keys.get(v as usize).copied().unwrap_or(0), v));
                let old = K::order(&self.mr);
                K::set_var_order(&self.mr, &req, *seq);
                let new = K::order(&self.mr);
                self.stats.reorders += 1;
                if new != old {
                    self.stats.reorders_effective += 1;
                    self.epoch += 1;
                }
                if req.len() > 1 {
                    let pos: HashMap<u32, usize> = new.iter().enumerate().map(|(l, &v)| (v, l)).collect();
                    for w in req.windows(2) {
                        if pos[&w[0]] >= pos[&w[1]] {
                            return Err(format!("reorder-order: requested {req:?}, got {new:?}"));
                        }
                    }
                    let (inv, best) = (inversions(&old, &new), min_inversions(&old, &req));
                    if inv != best {
                        return Err(format!("reorder-minimal: {old:?} -> {new:?} for request {req:?} needs {inv} swaps, minimum {best}"));
                    }
                } else if new != old {
                    return Err(format!("reorder-order: request {req:?} changed the order"));
                }
                self.verify_pool("after set_var_order")?;
            }
            VOp::Rebuild(a) => {
                record = false;
                let Some(a) = self.get(*a) else { return Ok(()) };
                let t = self.pool[a].t.clone();
                let r = vbuild::<K>(&self.mr, &t, &mut HashMap::new())?;
                if self.pool[a].epoch < self.epoch {
                    self.stats.rebuilds_after_event += 1;
                }
                self.stats.comparisons += 1;
                if r != self.pool[a].f {
                    let got = K::table(&r, n);
                    return Err(if got == t { "noncanonical: rebuilding a table through another route gives a handle != the existing one".into() } else { format!("result-table: rebuild gives {:?}", got.vals) });
                }
                self.push(r, t, "rebuild")?;
            }
            VOp::Repeat => {
                record = false;
                let Some(last) = self.last.clone() else { return Ok(()) };
                let ep = self.pool.last().map(|e| e.epoch);
                self.step(&last)?;
                self.stats.steps -= 1;
                self.stats.repeats += 1;
                let l = self.pool.len();
                if l >= 2 {
                    let t = self.pool[l - 1].t.clone();
                    if let Some(j) = (0..l - 1).rev().find(|&j| self.pool[j].t == t) {
                        self.stats.comparisons += 1;
                        if self.pool[j].f != self.pool[l - 1].f {
                            return Err(format!("noncanonical: repeating {last:?} yields a different handle"));
                        }
                        if ep.map_or(false, |e| e < self.epoch) {
                            self.stats.repeats_after_event += 1;
                        }
                    }
                }
            }
            VOp::BinPair(o1, o2, a, b) => {
                record = false;
                let (Some(ai), Some(bi)) = (self.get(*a), self.get(*b)) else { return Ok(()) };
                let nb = K::bin_names().len();
                let (o1, o2) = (*o1 as usize % nb, *o2 as usize % nb);
                let (fa, fb) = (self.pool[ai].f.clone(), self.pool[bi].f.clone());
                let (ta, tb) = (self.pool[ai].t.clone(), self.pool[bi].t.clone());
                let r1 = K::bin(o1, &fa, &fb)?;
                let r2 = K::bin(o2, &fa, &fb)?;
                self.stats.binpairs += 1;
                self.push(r1, ta.map2(&tb, |x, y| K::bin_model(o1, x, y)), K::bin_names()[o1])?;
                self.push(r2, ta.map2(&tb, |x, y| K::bin_model(o2, x, y)), &format!("{} (right after {} on the same operands)", K::bin_names()[o2], K::bin_names()[o1]))?;
            }
        }
        if record {
            self.last = Some(op.clone());
        }
        self.after_step()
    }

    pub fn gc(&mut self) -> Result<(), String> {
        let handles: Vec<&K::F> = self.pool.iter().map(|e| &e.f).collect();
        let before = if self.checks.rc { Some(K::audit(&self.mr, &handles, true).map_err(|e| format!("audit-rc(before gc): {e}"))?) } else { None };
        drop(handles);
        let (nb, tb) = (K::num_inner_nodes(&self.mr), K::num_terminals(&self.mr));
        let removed = K::gc(&self.mr);
        let (na, ta) = (K::num_inner_nodes(&self.mr), K::num_terminals(&self.mr));
        self.stats.gcs += 1;
        self.stats.gc_removed += removed as u64;
        if removed > 0 && !self.pool.is_empty() {
            self.stats.gc_with_live += 1;
        }
        if removed > 0 {
            self.epoch += 1;
        }
        if (nb - na) + (tb - ta) != removed {
            return Err(format!("gc-count: gc() returned {removed}, inner nodes {nb} -> {na}, terminals {tb} -> {ta}"));
        }
        if let Some(b) = before {
            if nb - na != b.unreachable {
                return Err(format!("gc-exact: {} inner nodes were unreachable before gc(), {} were removed", b.unreachable, nb - na));
            }
            let handles: Vec<&K::F> = self.pool.iter().map(|e| &e.f).collect();
            let after = K::audit(&self.mr, &handles, true).map_err(|e| format!("audit-rc(after gc): {e}"))?;
            if after.unreachable != 0 {
                return Err(format!("gc-exact: {} unreachable nodes remain after gc()", after.unreachable));
            }
            if !K::IS_TDD {
                // terminals: exactly the values occurring in live tables remain
                let mut vals: std::collections::HashSet<K::V> = Default::default();
                for e in &self.pool {
                    vals.extend(e.t.vals.iter().cloned());
                }
                if ta != vals.len() {
                    return Err(format!("gc-terminals: {ta} terminals stored after gc(), live handles use {} distinct values", vals.len()));
                }
            }
        }
        self.verify_pool("after gc")
    }

    pub fn verify_pool(&mut self, when: &str) -> Result<(), String> {
        for (i, e) in self.pool.iter().enumerate() {
            self.stats.comparisons += 1;
            let got = K::table(&e.f, self.n);
            if got != e.t {
                return Err(format!("preserve: {when}: pool[{i}] should denote {:?} but interprets as {:?}", e.t.vals, got.vals));
            }
        }
        Ok(())
    }

    fn after_step(&mut self) -> Result<(), String> {
        if self.checks.canon {
            let l = self.pool.len();
            for i in 0..l {
                for j in i + 1..l {
                    self.stats.comparisons += 1;
                    let (a, b) = (&self.pool[i], &self.pool[j]);
                    let (eqt, eqh) = (a.t == b.t, a.f == b.f);
                    if eqt != eqh {
                        return Err(if eqt { format!("noncanonical: pool[{i}] and pool[{j}] both denote {:?} but handles differ", a.t.vals) } else { format!("spurious-eq: pool[{i}] {:?} == pool[{j}] {:?}", a.t.vals, b.t.vals) });
                    }
                    let ord = a.f.cmp(&b.f);
                    if (ord == std::cmp::Ordering::Equal) != eqh || b.f.cmp(&a.f) != ord.reverse() {
                        return Err(format!("ord: cmp inconsistent with == for pool[{i}], pool[{j}]"));
                    }
                    if eqh {
                        self.stats.equal_pairs += 1;
                        if a.epoch != b.epoch {
                            self.stats.equal_pairs_after_event += 1;
                        }
                        if hash_of(&a.f) != hash_of(&b.f) {
                            return Err("hash: equal handles hash differently".into());
                        }
                    }
                }
            }
        }
        if self.checks.structure || self.checks.rc {
            let handles: Vec<&K::F> = self.pool.iter().map(|e| &e.f).collect();
            let info = K::audit(&self.mr, &handles, self.checks.rc).map_err(|e| format!("audit: {e}"))?;
            self.stats.audits += 1;
            if info.unreachable > 0 && info.nonempty_levels >= 2 {
                self.stats.audits_with_dead += 1;
            }
        }
        Ok(())
    }

    pub fn run(&mut self, ops: &[VOp]) -> Result<(), String> {
        for (i, op) in ops.iter().enumerate() {
            self.step(op).map_err(|e| format!("{e} @step {i} {op:?}"))?;
        }
        Ok(())
    }
}

pub fn vop_strategy(reorder_w: u32, gc_w: u32) -> BoxedStrategy<VOp> {
    let s = any::<u16>;
    prop_oneof![
        6 => s().prop_map(VOp::Const),
        8 => s().prop_map(VOp::Var),
        30 => (any::<u8>(), s(), s()).prop_map(|(o, a, b)| VOp::Bin(o, a, b)),
        4 => s().prop_map(VOp::Not),
        8 => (s(), s(), s()).prop_map(|(a, b, c)| VOp::Ite(a, b, c)),
        5 => (s(), s(), s()).prop_map(|(a, b, c)| VOp::Restrict(a, b, c)),
        3 => (s(), any::<u8>()).prop_map(|(a, b)| VOp::Cofactor(a, b)),
        3 => s().prop_map(VOp::Clone),
        8 => s().prop_map(VOp::Drop),
        1 => Just(VOp::DropAll),
        gc_w => Just(VOp::Gc),
        3 => any::<u8>().prop_map(VOp::Churn),
        2 => (1u8..3).prop_map(VOp::AddVars),
        reorder_w => (proptest::collection::vec(s(), 6), s(), any::<bool>()).prop_map(|(k, m, q)| VOp::SetOrder(k, m, q)),
        5 => s().prop_map(VOp::Rebuild),
        5 => Just(VOp::Repeat),
        8 => (any::<u8>(), any::<u8>(), s(), s()).prop_map(|(a, b, c, d)| VOp::BinPair(a, b, c, d)),
    ]
    .boxed()
}

pub fn vcase_strategy(nmax: u32, reorder_w: u32, gc_w: u32, caches: Vec<usize>) -> impl Strategy<Value = VCase> {
    (1u32..=nmax, proptest::collection::vec(any::<u16>(), 6), proptest::sample::select(caches), proptest::collection::vec(vop_strategy(reorder_w, gc_w), 8..45))
        .prop_map(|(n0, order_keys, cache_cap, ops)| VCase { cfg: VCfg { n0, order_keys, cache_cap, threads: 1 }, ops })
}

pub fn vrun_case_isolated<K: VKind>(case: &VCase, checks: Checks) -> Result<CaseStats, String> {
    let out = isolated(120, |w: &mut dyn Write| {
        let mut h = VHist::<K>::new(&case.cfg, checks);
        let r = h.run(&case.ops);
        let st = CaseStats::from(&h.stats);
        let _ = writeln!(w, "{}", json!({"ok": r.is_ok(), "msg": r.err(), "stats": st}));
        std::mem::forget(h);
    });
    match out.end {
        End::Exit(0) => {
            for l in &out.lines {
                if let Ok(v) = serde_json::from_str::<Value>(l) {
                    if v.get("ok").is_some() {
                        return if v["ok"].as_bool() == Some(true) { Ok(serde_json::from_value(v["stats"].clone()).unwrap_or_default()) } else { Err(v["msg"].as_str().unwrap_or("?").to_string()) };
                    }
                }
            }
            Err("crash: child exited 0 without a verdict".into())
        }
        End::Timeout => Err("timeout: watchdog expired".into()),
        End::Exit(c) => {
            let p = out.lines.iter().filter_map(|l| serde_json::from_str::<Value>(l).ok()).find_map(|v| v.get("panic").and_then(|p| p.as_str()).map(|s| s.to_string()));
            Err(format!("crash: child exited with code {c}; panic: {}", p.unwrap_or_default()))
        }
        End::Signal(s) => Err(format!("crash: child killed by signal {s}")),
    }
}

/// proptest campaign of value-kind histories. `variants` > 1 runs each case also under
/// other cache capacities and compares digests (C06).
pub fn vhist_campaign<K: VKind>(prop: &str, seed: u64, cases: u32, checks: Checks, reorder_w: u32, gc_w: u32, cache_variants: &[usize], rep: &mut Report, nontrivial: &dyn Fn(&CaseStats) -> bool) {
    let nmax = if K::IS_TDD { 3 } else { 4 };
    let strat = vcase_strategy(nmax, reorder_w, gc_w, vec![cache_variants[0]]);
    let mut nt = 0u64;
    let mut evals = 0u64;
    let mut samples: Vec<Value> = vec![];
    let mut agg: std::collections::BTreeMap<String, u64> = Default::default();
    let out = crate::pt::run2(
        seed,
        cases,
        &strat,
        |_| {},
        |c, r: &Result<CaseStats, String>| {
            if let Ok(s) = r {
                evals += s.comparisons.max(1);
                if nontrivial(s) {
                    nt += 1;
                    if samples.len() < 2 {
                        samples.push(json!({"kind": K::NAME, "cfg": c.cfg, "ops": c.ops}));
                    }
                }
                for (k, v) in [("steps", s.steps), ("gcs", s.gcs), ("gc_removed", s.gc_removed), ("reorders_effective", s.reorders_effective), ("add_vars", s.add_vars), ("binpairs", s.binpairs), ("repeats", s.repeats), ("repeats_after_event", s.repeats_after_event), ("rebuilds_after_event", s.rebuilds_after_event), ("equal_pairs_after_event", s.equal_pairs_after_event), ("audits", s.audits), ("audits_with_dead", s.audits_with_dead)] {
                    *agg.entry(format!("{}.{k}", K::NAME)).or_insert(0) += v;
                }
            }
        },
        |c| {
            let mut first: Option<CaseStats> = None;
            for cap in cache_variants {
                let mut cc = c.clone();
                cc.cfg.cache_cap = *cap;
                match vrun_case_isolated::<K>(&cc, checks) {
                    Err(m) if m.starts_with("timeout") => return Ok(CaseStats::default()),
                    Err(m) => return Err(if cache_variants.len() > 1 { format!("{m} [cache={cap}]") } else { m }),
                    Ok(s) => match &mut first {
                        None => first = Some(s),
                        Some(f) => {
                            if f.digest != s.digest {
                                return Err(format!("cache-dependent: results differ between cache={} and cache={cap}", cache_variants[0]));
                            }
                            f.comparisons += s.comparisons;
                        }
                    },
                }
            }
            Ok(first.unwrap())
        },
    );
    rep.evaluations += evals;
    rep.nontrivial += nt;
    rep.class_n(&format!("{}.cases", K::NAME), out.cases);
    for (k, v) in agg {
        rep.class_n(&k, v);
    }
    for s in samples {
        rep.sample(s);
    }
    if let Some((c, msg)) = out.failure {
        rep.viol(format!("{prop}/{}/{}", K::NAME, category(&msg)), msg, json!({"kind": K::NAME, "cfg": c.cfg, "ops": c.ops}));
    }
}

/// replay under several cache capacities (C06): every variant must pass and agree
pub fn vreplay_variants<K: VKind>(case: &Value, checks: Checks, cache_variants: &[usize]) -> Result<CaseStats, String> {
    let cfg: VCfg = serde_json::from_value(case["cfg"].clone()).map_err(|e| format!("bad replay cfg: {e}"))?;
    let ops: Vec<VOp> = serde_json::from_value(case["ops"].clone()).map_err(|e| format!("bad replay ops: {e}"))?;
    let c = VCase { cfg, ops };
    let mut first: Option<CaseStats> = None;
    for cap in cache_variants {
        let mut cc = c.clone();
        cc.cfg.cache_cap = *cap;
        let s = vrun_case_isolated::<K>(&cc, checks).map_err(|m| format!("{m} [cache={cap}]"))?;
        match &first {
            None => first = Some(s),
            Some(f) => {
                if f.digest != s.digest {
                    return Err(format!("cache-dependent: results differ between cache={} and cache={cap}", cache_variants[0]));
                }
            }
        }
    }
    Ok(first.unwrap_or_default())
}

pub fn vreplay<K: VKind>(case: &Value, checks: Checks) -> Result<CaseStats, String> {
    let cfg: VCfg = serde_json::from_value(case["cfg"].clone()).map_err(|e| format!("bad replay cfg: {e}"))?;
    let ops: Vec<VOp> = serde_json::from_value(case["ops"].clone()).map_err(|e| format!("bad replay ops: {e}"))?;
    vrun_case_isolated::<K>(&VCase { cfg, ops }, checks)
}
