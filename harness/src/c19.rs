//! C19 — C API: handle ownership is balanced and results equal the model (= the Rust API's).
//! The freshly built liboxidd_ffi_c.so is loaded with dlopen; prototypes are declared by hand.

use std::ffi::{CString, c_void};
use std::io::Write;
use std::process::Command;
use std::time::Instant;

use proptest::prelude::*;
use serde::{Deserialize, Serialize};
use serde_json::{Value, json};

use crate::c02::order_from_keys;
use crate::engine::*;
use crate::model::*;

#[repr(C)]
#[derive(Clone, Copy, Debug)]
pub struct Mgr {
    p: *const c_void,
}
#[repr(C)]
#[derive(Clone, Copy, Debug, PartialEq)]
pub struct H {
    p: *const c_void,
    i: usize,
}
const INVALID: H = H { p: std::ptr::null(), i: 0 };
#[repr(C)]
pub struct Pair {
    first: H,
    second: H,
}
#[repr(C)]
pub struct VarRange {
    start: u32,
    end: u32,
}
#[repr(C)]
pub struct VarBool {
    var: u32,
    val: bool,
}
#[repr(C)]
pub struct Assignment {
    data: *mut i8,
    len: usize,
}

macro_rules! api {
    ($( $field:ident : $suffix:literal => fn($($a:ty),*) $(-> $r:ty)? ;)*) => {
        #[allow(non_snake_case)]
        pub struct Api { $( pub $field: Option<unsafe extern "C" fn($($a),*) $(-> $r)?>, )* pub assignment_free: unsafe extern "C" fn(Assignment), }
        impl Api {
            pub unsafe fn load(lib: *mut c_void, prefix: &str) -> Result<Api, String> {
                unsafe {
                    let get = |name: String| -> *mut c_void {
                        let c = CString::new(name).unwrap();
                        libc::dlsym(lib, c.as_ptr())
                    };
                    let af = get("oxidd_assignment_free".to_string());
                    if af.is_null() { return Err("symbol oxidd_assignment_free missing".into()); }
                    Ok(Api {
                        $( $field: { let p = get(format!("oxidd_{}_{}", prefix, $suffix)); if p.is_null() { None } else { Some(std::mem::transmute::<*mut c_void, unsafe extern "C" fn($($a),*) $(-> $r)?>(p)) } }, )*
                        assignment_free: std::mem::transmute::<*mut c_void, unsafe extern "C" fn(Assignment)>(af),
                    })
                }
            }
        }
    };
}

api! {
    manager_new: "manager_new" => fn(usize, usize, u32) -> Mgr;
    manager_ref: "manager_ref" => fn(Mgr) -> Mgr;
    manager_unref: "manager_unref" => fn(Mgr);
    fref: "ref" => fn(H) -> H;
    unref: "unref" => fn(H);
    containing_manager: "containing_manager" => fn(H) -> Mgr;
    num_inner_nodes: "manager_num_inner_nodes" => fn(Mgr) -> usize;
    num_vars: "manager_num_vars" => fn(Mgr) -> u32;
    add_vars: "manager_add_vars" => fn(Mgr, u32) -> VarRange;
    var_to_level: "manager_var_to_level" => fn(Mgr, u32) -> u32;
    level_to_var: "manager_level_to_var" => fn(Mgr, u32) -> u32;
    gc: "manager_gc" => fn(Mgr) -> usize;
    set_var_order: "manager_set_var_order" => fn(Mgr, *const u32, usize);
    var: "var" => fn(Mgr, u32) -> H;
    not_var: "not_var" => fn(Mgr, u32) -> H;
    f_false: "false" => fn(Mgr) -> H;
    f_true: "true" => fn(Mgr) -> H;
    cofactors: "cofactors" => fn(H) -> Pair;
    cofactor_true: "cofactor_true" => fn(H) -> H;
    cofactor_false: "cofactor_false" => fn(H) -> H;
    node_level: "node_level" => fn(H) -> u32;
    node_var: "node_var" => fn(H) -> u32;
    not: "not" => fn(H) -> H;
    and: "and" => fn(H, H) -> H;
    or: "or" => fn(H, H) -> H;
    nand: "nand" => fn(H, H) -> H;
    nor: "nor" => fn(H, H) -> H;
    xor: "xor" => fn(H, H) -> H;
    equiv: "equiv" => fn(H, H) -> H;
    imp: "imp" => fn(H, H) -> H;
    imp_strict: "imp_strict" => fn(H, H) -> H;
    ite: "ite" => fn(H, H, H) -> H;
    restrict: "restrict" => fn(H, H) -> H;
    forall: "forall" => fn(H, H) -> H;
    exists: "exists" => fn(H, H) -> H;
    unique: "unique" => fn(H, H) -> H;
    apply_forall: "apply_forall" => fn(u8, H, H, H) -> H;
    apply_exists: "apply_exists" => fn(u8, H, H, H) -> H;
    apply_unique: "apply_unique" => fn(u8, H, H, H) -> H;
    subst_new: "substitution_new" => fn(usize) -> *mut c_void;
    subst_add_pair: "substitution_add_pair" => fn(*mut c_void, u32, H);
    subst_free: "substitution_free" => fn(*mut c_void);
    substitute: "substitute" => fn(H, *const c_void) -> H;
    node_count: "node_count" => fn(H) -> usize;
    satisfiable: "satisfiable" => fn(H) -> bool;
    valid: "valid" => fn(H) -> bool;
    sat_count_double: "sat_count_double" => fn(H, u32) -> f64;
    pick_cube: "pick_cube" => fn(H) -> Assignment;
    pick_cube_dd: "pick_cube_dd" => fn(H) -> H;
    pick_cube_dd_set: "pick_cube_dd_set" => fn(H, H) -> H;
    eval: "eval" => fn(H, *const VarBool, usize) -> bool;
    // ZBDD only
    singleton: "singleton" => fn(Mgr, u32) -> H;
    empty: "empty" => fn(Mgr) -> H;
    base: "base" => fn(Mgr) -> H;
    subset0: "subset0" => fn(H, u32) -> H;
    subset1: "subset1" => fn(H, u32) -> H;
    change: "change" => fn(H, u32) -> H;
    union: "union" => fn(H, H) -> H;
    intsec: "intsec" => fn(H, H) -> H;
    diff: "diff" => fn(H, H) -> H;
    make_node: "make_node" => fn(H, H, H) -> H;
    // variable names
    num_named_vars: "manager_num_named_vars" => fn(Mgr) -> u32;
    set_var_name: "manager_set_var_name" => fn(Mgr, u32, *const std::ffi::c_char, usize) -> u32;
    name_to_var: "manager_name_to_var" => fn(Mgr, *const std::ffi::c_char, usize) -> u32;
    var_name: "manager_var_name" => fn(Mgr, u32, *mut usize) -> *mut std::ffi::c_char;
    // DDDMP through C (settings, names and error pointers may be NULL)
    export_dddmp: "manager_export_dddmp" => fn(Mgr, *const std::ffi::c_char, usize, *const H, usize, *const *const std::ffi::c_char, *const c_void, *mut c_void) -> bool;
    import_dddmp: "manager_import_dddmp" => fn(Mgr, *mut c_void, *const u32, *mut H, *mut c_void) -> bool;
}

#[derive(Clone, Debug, Serialize, Deserialize, PartialEq)]
pub enum FOp {
    Const(bool),
    Var(u16),
    NotVar(u16),
    Not(u16),
    Bin(BinOp, u16, u16),
    Ite(u16, u16, u16),
    Restrict(u16, u16, u16),
    Quant(u8, u16, u16),
    ApplyQuant(u8, BinOp, u16, u16, u16),
    Subst(u16, u16, Vec<u16>),
    Cofactors(u16),
    CofactorOne(u16, bool),
    Ref(u16),
    Unref(u16),
    Gc,
    AddVars(u8),
    SetOrder(Vec<u16>),
    /// operation with the invalid handle at an operand position
    Invalid(u8, u16),
    PickCube(u16),
    PickCubeDd(u16),
    PickCubeDdSet(u16, u16, u16),
    ContainingManager(u16),
    /// variable names through C: set_var_name(var, name) / name_to_var / var_name / num_named_vars
    /// against a Vec<String> model (the name alphabet includes "", a duplicate and non-ASCII)
    Name(u16, u8),
    /// export up to two owned functions with oxidd_*_manager_export_dddmp, open the file with
    /// oxidd_dddmp_open and import it into the same manager
    DddmpRoundTrip(u16, u16, bool),
    // ZBDD set operations
    ZSingleton(u16),
    ZBase,
    ZSub(u8, u16, u16),
    ZSet(u8, u16, u16),
    ZMakeNode(u16, u16),
}

#[derive(Clone, Debug, Serialize, Deserialize)]
pub struct FCase {
    pub n0: u32,
    pub order_keys: Vec<u16>,
    pub ops: Vec<FOp>,
    pub threads: u32,
}

#[derive(Default, Serialize, Deserialize, Debug)]
pub struct FStat {
    pub checks: u64,
    pub new_handles: u64,
    pub invalid_calls: u64,
    #[serde(default)]
    pub dddmp_roundtrips: u64,
    #[serde(default)]
    pub name_ops: u64,
    pub gc_checks: u64,
    pub retained_operand_results: u64,
}

#[inline]
fn sel(i: u16, len: usize) -> usize {
    ((i as usize) * len) >> 16
}

fn lib_path() -> String {
    format!("{}/target/ffi/release/liboxidd_ffi_c.so", verif_dir())
}

pub fn run_case(kind: BKind, c: &FCase) -> Result<FStat, String> {
    unsafe {
        let path = CString::new(lib_path()).unwrap();
        let lib = libc::dlopen(path.as_ptr(), libc::RTLD_NOW | libc::RTLD_LOCAL);
        if lib.is_null() {
            return Err(format!("harness: cannot dlopen {}", lib_path()));
        }
        let prefix = match kind {
            BKind::Bdd => "bdd",
            BKind::Bcdd => "bcdd",
            BKind::Zbdd => "zbdd",
        };
        let api = Api::load(lib, prefix)?;
        macro_rules! f {
            ($name:ident) => {
                api.$name.ok_or_else(|| format!("symbol-missing: oxidd_{}_{} is not exported", prefix, stringify!($name)))?
            };
        }
        let mut st = FStat::default();
        let mut n = c.n0;
        let mgr = f!(manager_new)(1 << 14, 256, c.threads);
        let r = f!(add_vars)(mgr, n);
        if (r.start, r.end) != (0, n) {
            return Err(format!("add-vars: returned {}..{}", r.start, r.end));
        }
        let order0 = order_from_keys(n, &c.order_keys);
        f!(set_var_order)(mgr, order0.as_ptr(), order0.len());
        let l2v = f!(level_to_var);
        let cur_order = |n: u32| -> Result<Vec<u32>, String> { Ok((0..n).map(|l| l2v(mgr, l)).collect()) };
        if n >= 2 && cur_order(n)? != order0 {
            return Err(format!("set-var-order: requested {order0:?}, level_to_var gives {:?}", cur_order(n)?));
        }
        let ext = |t: &TT, n2: u32| if kind == BKind::Zbdd { t.extend_zero(n2) } else { t.extend_dc(n2) };
        // ledger of owned handles with their model tables
        let mut pool: Vec<(H, TT)> = vec![];
        // model of the variable names
        let mut names: Vec<String> = vec![];
        let table_of = |h: H, n: u32| -> Result<TT, String> {
            let ev = f!(eval);
            let mut t = TT::zero(n);
            for a in 0..(1usize << n) {
                let args: Vec<VarBool> = (0..n).map(|v| VarBool { var: v, val: (a >> v) & 1 == 1 }).collect();
                if ev(h, args.as_ptr(), args.len()) {
                    t.set(a, true);
                }
            }
            Ok(t)
        };
        macro_rules! own {
            ($h:expr, $t:expr, $what:expr) => {{
                let h: H = $h;
                let t: TT = $t;
                if h.p.is_null() {
                    return Err(format!("invalid-result: {} returned an invalid handle", $what));
                }
                st.checks += 1;
                st.new_handles += 1;
                let got = table_of(h, n)?;
                if got != t {
                    return Err(format!("wrong-result: {} returned a function with table {got:?}, model {t:?}", $what));
                }
                let order = cur_order(n)?;
                let nc = f!(node_count)(h);
                let exp = ref_node_count(kind, &t, &order);
                if nc != exp {
                    return Err(format!("node-count: {}: oxidd_*_node_count = {nc}, reference {exp}", $what));
                }
                if pool.len() >= 24 {
                    let (old, _) = pool.remove(0);
                    f!(unref)(old);
                }
                pool.push((h, t));
            }};
        }
        let cube = |pos: u16, neg: u16, n: u32| -> Result<(H, Vec<Option<bool>>), String> {
            // builds a cube handle (owned by the caller)
            let neg = neg & !pos;
            let mut acc = f!(f_true)(mgr);
            let mut lits = vec![None; n as usize];
            for v in 0..n {
                let lit = if (pos >> v) & 1 == 1 {
                    lits[v as usize] = Some(true);
                    f!(var)(mgr, v)
                } else if (neg >> v) & 1 == 1 {
                    lits[v as usize] = Some(false);
                    f!(not_var)(mgr, v)
                } else {
                    continue;
                };
                let next = f!(and)(acc, lit);
                f!(unref)(acc);
                f!(unref)(lit);
                acc = next;
            }
            Ok((acc, lits))
        };
        for (step, op) in c.ops.iter().enumerate() {
            let what = format!("step {step} {op:?}");
            let get = |i: u16, pool: &Vec<(H, TT)>| -> Option<(H, TT)> { if pool.is_empty() { None } else { Some(pool[sel(i, pool.len())]) } };
            match op {
                FOp::Const(b) => {
                    let h = if *b { f!(f_true)(mgr) } else { f!(f_false)(mgr) };
                    own!(h, if *b { TT::one(n) } else { TT::zero(n) }, what);
                }
                FOp::Var(v) | FOp::NotVar(v) => {
                    if n == 0 {
                        continue;
                    }
                    let v = sel(*v, n as usize) as u32;
                    let neg = matches!(op, FOp::NotVar(_));
                    let h = if neg { f!(not_var)(mgr, v) } else { f!(var)(mgr, v) };
                    own!(h, if neg { TT::var(n, v).not() } else { TT::var(n, v) }, what);
                }
                FOp::Not(a) => {
                    let Some((ha, ta)) = get(*a, &pool) else { continue };
                    own!(f!(not)(ha), ta.not(), what);
                    st.retained_operand_results += 1;
                }
                FOp::Bin(o, a, b) => {
                    let (Some((ha, ta)), Some((hb, tb))) = (get(*a, &pool), get(*b, &pool)) else { continue };
                    let fun = match o {
                        BinOp::And => f!(and),
                        BinOp::Or => f!(or),
                        BinOp::Xor => f!(xor),
                        BinOp::Equiv => f!(equiv),
                        BinOp::Nand => f!(nand),
                        BinOp::Nor => f!(nor),
                        BinOp::Imp => f!(imp),
                        BinOp::ImpStrict => f!(imp_strict),
                    };
                    own!(fun(ha, hb), o.tt(&ta, &tb), what);
                    st.retained_operand_results += 1;
                }
                FOp::Ite(a, b, cc) => {
                    let (Some((ha, ta)), Some((hb, tb)), Some((hc, tc))) = (get(*a, &pool), get(*b, &pool), get(*cc, &pool)) else { continue };
                    own!(f!(ite)(ha, hb, hc), ta.ite(&tb, &tc), what);
                    st.retained_operand_results += 1;
                }
                FOp::Restrict(a, pos, neg) => {
                    if api.restrict.is_none() {
                        continue; // not part of this kind's C API (ZBDD)
                    }
                    let Some((ha, ta)) = get(*a, &pool) else { continue };
                    let (ch, lits) = cube(*pos, *neg, n)?;
                    let r = f!(restrict)(ha, ch);
                    f!(unref)(ch);
                    let mut t = ta;
                    for (v, l) in lits.iter().enumerate() {
                        if let Some(b) = l {
                            t = t.cof(v as u32, *b);
                        }
                    }
                    own!(r, t, what);
                }
                FOp::Quant(q, a, mask) => {
                    if kind == BKind::Zbdd {
                        continue;
                    }
                    let Some((ha, ta)) = get(*a, &pool) else { continue };
                    let (ch, lits) = cube(*mask & 0x1f, 0, n)?;
                    let r = match q % 3 {
                        0 => f!(exists)(ha, ch),
                        1 => f!(forall)(ha, ch),
                        _ => f!(unique)(ha, ch),
                    };
                    f!(unref)(ch);
                    let mut t = ta;
                    for (v, l) in lits.iter().enumerate() {
                        if l.is_some() {
                            t = match q % 3 {
                                0 => t.exists(v as u32),
                                1 => t.forall(v as u32),
                                _ => t.unique(v as u32),
                            };
                        }
                    }
                    own!(r, t, what);
                }
                FOp::ApplyQuant(q, o, a, b, mask) => {
                    if kind == BKind::Zbdd {
                        continue;
                    }
                    let (Some((ha, ta)), Some((hb, tb))) = (get(*a, &pool), get(*b, &pool)) else { continue };
                    let (ch, lits) = cube(*mask & 0x1f, 0, n)?;
                    // BooleanOperator is repr(u8): And, Or, Xor, Equiv, Nand, Nor, Imp, ImpStrict
                    let code = match o {
                        BinOp::And => 0u8,
                        BinOp::Or => 1,
                        BinOp::Xor => 2,
                        BinOp::Equiv => 3,
                        BinOp::Nand => 4,
                        BinOp::Nor => 5,
                        BinOp::Imp => 6,
                        BinOp::ImpStrict => 7,
                    };
                    let r = match q % 3 {
                        0 => f!(apply_exists)(code, ha, hb, ch),
                        1 => f!(apply_forall)(code, ha, hb, ch),
                        _ => f!(apply_unique)(code, ha, hb, ch),
                    };
                    f!(unref)(ch);
                    let mut t = o.tt(&ta, &tb);
                    for (v, l) in lits.iter().enumerate() {
                        if l.is_some() {
                            t = match q % 3 {
                                0 => t.exists(v as u32),
                                1 => t.forall(v as u32),
                                _ => t.unique(v as u32),
                            };
                        }
                    }
                    own!(r, t, what);
                }
                FOp::Subst(a, mask, repl) => {
                    if kind == BKind::Zbdd || pool.is_empty() || repl.is_empty() {
                        continue;
                    }
                    let Some((ha, ta)) = get(*a, &pool) else { continue };
                    let vs: Vec<u32> = (0..n).filter(|v| (mask >> v) & 1 == 1).collect();
                    if vs.is_empty() {
                        continue;
                    }
                    let s = f!(subst_new)(vs.len());
                    let mut ts = vec![];
                    for (i, v) in vs.iter().enumerate() {
                        let (hr, tr) = pool[sel(repl[i % repl.len()], pool.len())];
                        f!(subst_add_pair)(s, *v, hr); // clones the replacement
                        ts.push(tr);
                    }
                    let r1 = f!(substitute)(ha, s as *const c_void);
                    let r2 = f!(substitute)(ha, s as *const c_void); // the object can be reused
                    f!(subst_free)(s);
                    let t = TT::from_fn(n, |asg| {
                        let mut b = asg;
                        for (i, &v) in vs.iter().enumerate() {
                            if ts[i].get(asg) {
                                b |= 1 << v;
                            } else {
                                b &= !(1 << v);
                            }
                        }
                        ta.get(b)
                    });
                    if r1 != r2 {
                        return Err(format!("wrong-result: {what}: substituting twice with the same object gives different handles"));
                    }
                    own!(r1, t, what);
                    own!(r2, t, what);
                }
                FOp::Cofactors(a) => {
                    let Some((ha, ta)) = get(*a, &pool) else { continue };
                    let lvl = f!(node_level)(ha);
                    let p = f!(cofactors)(ha);
                    if lvl == u32::MAX {
                        if !p.first.p.is_null() || !p.second.p.is_null() {
                            return Err(format!("wrong-result: {what}: cofactors of a terminal are valid handles"));
                        }
                        continue;
                    }
                    let v = f!(level_to_var)(mgr, lvl);
                    if f!(node_var)(ha) != v {
                        return Err(format!("wrong-result: {what}: node_var disagrees with level_to_var(node_level)"));
                    }
                    let (t1, t0) = if kind == BKind::Zbdd { (ta.zcof(v, true), ta.zcof(v, false)) } else { (ta.cof(v, true), ta.cof(v, false)) };
                    own!(p.first, t1, what);
                    own!(p.second, t0, what);
                }
                FOp::CofactorOne(a, which) => {
                    let Some((ha, ta)) = get(*a, &pool) else { continue };
                    let lvl = f!(node_level)(ha);
                    let r = if *which { f!(cofactor_true)(ha) } else { f!(cofactor_false)(ha) };
                    if lvl == u32::MAX {
                        if !r.p.is_null() {
                            return Err(format!("wrong-result: {what}: cofactor of a terminal is a valid handle"));
                        }
                        continue;
                    }
                    let v = f!(level_to_var)(mgr, lvl);
                    let t = if kind == BKind::Zbdd { ta.zcof(v, *which) } else { ta.cof(v, *which) };
                    own!(r, t, what);
                }
                FOp::Ref(a) => {
                    let Some((ha, ta)) = get(*a, &pool) else { continue };
                    let r = f!(fref)(ha);
                    if r != ha {
                        return Err(format!("wrong-result: {what}: oxidd_*_ref returned a different handle"));
                    }
                    own!(r, ta, what);
                }
                FOp::Unref(a) => {
                    if pool.is_empty() {
                        continue;
                    }
                    let (h, _) = pool.remove(sel(*a, pool.len()));
                    f!(unref)(h);
                }
                FOp::Gc => {
                    f!(gc)(mgr);
                    // exactly the nodes of the owned functions remain
                    let order = cur_order(n)?;
                    let mut tables: Vec<TT> = pool.iter().map(|p| p.1).collect();
                    if kind == BKind::Zbdd {
                        tables.push(TT::one(n)); // the manager's tautology chain
                    }
                    let exp = ref_inner_nodes(kind, &tables, &order);
                    let got = f!(num_inner_nodes)(mgr);
                    st.checks += 1;
                    st.gc_checks += 1;
                    if got != exp {
                        return Err(format!("ownership-balance: {what}: after gc the manager holds {got} inner nodes, the {} owned handles need exactly {exp} ({})", pool.len(), if got > exp { "a reference was leaked" } else { "a handle was over-released" }));
                    }
                }
                FOp::AddVars(k) => {
                    let k = (*k as u32 % 3).min(8 - n.min(8));
                    if k == 0 {
                        continue;
                    }
                    let r = f!(add_vars)(mgr, k);
                    if (r.start, r.end) != (n, n + k) {
                        return Err(format!("add-vars: {what}: returned {}..{}", r.start, r.end));
                    }
                    n += k;
                    if f!(num_vars)(mgr) != n {
                        return Err(format!("add-vars: num_vars = {}", f!(num_vars)(mgr)));
                    }
                    for p in pool.iter_mut() {
                        p.1 = ext(&p.1, n);
                    }
                    for (h, t) in &pool {
                        if table_of(*h, n)? != *t {
                            return Err(format!("wrong-result: {what}: a handle changed its function"));
                        }
                    }
                }
                FOp::SetOrder(keys) => {
                    if n < 2 {
                        continue;
                    }
                    let mut k = keys.clone();
                    k.resize(8, 0);
                    let o = order_from_keys(n, &k);
                    f!(set_var_order)(mgr, o.as_ptr(), o.len());
                    if cur_order(n)? != o {
                        return Err(format!("set-var-order: {what}: requested {o:?}, got {:?}", cur_order(n)?));
                    }
                    for v in 0..n {
                        if f!(level_to_var)(mgr, f!(var_to_level)(mgr, v)) != v {
                            return Err(format!("set-var-order: {what}: var/level maps inconsistent"));
                        }
                    }
                    for (h, t) in &pool {
                        if table_of(*h, n)? != *t {
                            return Err(format!("wrong-result: {what}: a handle changed its function"));
                        }
                    }
                }
                FOp::Invalid(which, a) => {
                    let Some((ha, _)) = get(*a, &pool) else { continue };
                    st.invalid_calls += 1;
                    // ZBDD make_node "takes ownership of hi and lo (but not var)": the references
                    // handed over are not unref'ed by the harness, whichever operand is invalid;
                    // a reference the callee fails to consume shows up in the balance checks
                    if kind == BKind::Zbdd && n > 0 && which % 16 >= 10 {
                        let sg = f!(singleton)(mgr, f!(level_to_var)(mgr, 0));
                        let r = match which % 16 {
                            10 | 13 => f!(make_node)(INVALID, f!(fref)(ha), f!(fref)(ha)),
                            11 | 14 => f!(make_node)(sg, INVALID, f!(fref)(ha)),
                            _ => f!(make_node)(sg, f!(fref)(ha), INVALID),
                        };
                        f!(unref)(sg);
                        st.checks += 1;
                        if !r.p.is_null() {
                            return Err(format!("invalid-propagation: {what}: make_node with an invalid operand returned a valid handle"));
                        }
                        continue;
                    }
                    let r = match which % 10 {
                        0 => f!(and)(INVALID, ha),
                        1 => f!(or)(ha, INVALID),
                        2 => f!(not)(INVALID),
                        3 => f!(ite)(ha, INVALID, ha),
                        4 => f!(ite)(INVALID, ha, ha),
                        5 => f!(ite)(ha, ha, INVALID),
                        6 => f!(xor)(INVALID, INVALID),
                        7 => match api.restrict {
                            Some(r) => r(ha, INVALID),
                            None => f!(and)(INVALID, INVALID),
                        },
                        8 => f!(pick_cube_dd)(INVALID),
                        _ => f!(pick_cube_dd_set)(INVALID, ha),
                    };
                    st.checks += 1;
                    if !r.p.is_null() {
                        return Err(format!("invalid-propagation: {what}: an operation with an invalid operand returned a valid handle"));
                    }
                    if f!(node_level)(INVALID) != u32::MAX || f!(node_var)(INVALID) != u32::MAX {
                        return Err(format!("invalid-propagation: {what}: node_level/node_var of the invalid handle"));
                    }
                    f!(unref)(INVALID); // documented no-op
                }
                FOp::PickCube(a) => {
                    let Some((ha, ta)) = get(*a, &pool) else { continue };
                    let asg = f!(pick_cube)(ha);
                    st.checks += 1;
                    if ta.is_zero() {
                        if asg.len != 0 {
                            return Err(format!("wrong-result: {what}: pick_cube of false returned {} entries", asg.len));
                        }
                    } else {
                        if asg.len != n as usize {
                            return Err(format!("wrong-result: {what}: pick_cube returned {} entries for {n} variables", asg.len));
                        }
                        let lits: Vec<Option<bool>> = (0..n as usize).map(|i| match *asg.data.add(i) { -1 => None, 0 => Some(false), _ => Some(true) }).collect();
                        if !TT::cube(n, &lits).and(&ta.not()).is_zero() {
                            return Err(format!("wrong-result: {what}: pick_cube {lits:?} does not imply the function"));
                        }
                    }
                    (api.assignment_free)(asg);
                    let sc = f!(sat_count_double)(ha, n);
                    if sc != ta.popcount() as f64 {
                        return Err(format!("wrong-result: {what}: sat_count_double = {sc}, model {}", ta.popcount()));
                    }
                    if f!(satisfiable)(ha) != !ta.is_zero() || f!(valid)(ha) != ta.is_one() {
                        return Err(format!("wrong-result: {what}: satisfiable/valid"));
                    }
                }
                FOp::PickCubeDd(a) => {
                    let Some((ha, ta)) = get(*a, &pool) else { continue };
                    let r = f!(pick_cube_dd)(ha);
                    if r.p.is_null() {
                        return Err(format!("invalid-result: {what}"));
                    }
                    let got = table_of(r, n)?;
                    st.checks += 1;
                    if got.is_zero() != ta.is_zero() || !got.and(&ta.not()).is_zero() || (!got.is_zero() && got.as_cube().is_none()) {
                        f!(unref)(r);
                        return Err(format!("wrong-result: {what}: pick_cube_dd returned {got:?} for {ta:?}"));
                    }
                    own!(r, got, what);
                }
                FOp::PickCubeDdSet(a, pos, neg) => {
                    let Some((ha, ta)) = get(*a, &pool) else { continue };
                    let (ch, _) = cube(*pos, *neg, n)?;
                    let r = f!(pick_cube_dd_set)(ha, ch);
                    f!(unref)(ch);
                    if r.p.is_null() {
                        return Err(format!("invalid-result: {what}"));
                    }
                    let got = table_of(r, n)?;
                    st.checks += 1;
                    if got.is_zero() != ta.is_zero() || !got.and(&ta.not()).is_zero() {
                        f!(unref)(r);
                        return Err(format!("wrong-result: {what}: pick_cube_dd_set returned {got:?} for {ta:?}"));
                    }
                    own!(r, got, what);
                }
                FOp::Name(v, k) => {
                    if n == 0 {
                        continue;
                    }
                    const NAMES: [&str; 6] = ["", "a", "b", "c", "x1", "\u{e4}\u{3b2}"];
                    if names.len() < n as usize {
                        names.resize(n as usize, String::new());
                    }
                    let var = sel(*v, n as usize) as u32;
                    let name = NAMES[*k as usize % NAMES.len()];
                    let r = f!(set_var_name)(mgr, var, if name.is_empty() && k & 64 != 0 { std::ptr::null() } else { name.as_ptr().cast() }, name.len());
                    st.checks += 1;
                    let other = if name.is_empty() { None } else { names.iter().position(|x| x == name).filter(|p| *p as u32 != var) };
                    match other {
                        Some(p) => {
                            if r != p as u32 {
                                return Err(format!("names: {what}: set_var_name({var}, {name:?}) = {r}, the name is used by variable {p}"));
                            }
                        }
                        None => {
                            if r != u32::MAX {
                                return Err(format!("names: {what}: set_var_name({var}, {name:?}) = {r}, expected success (-1)"));
                            }
                            names[var as usize] = name.to_string();
                        }
                    }
                    // read everything back
                    for (i, nm) in names.iter().enumerate() {
                        let mut len = usize::MAX;
                        let p = f!(var_name)(mgr, i as u32, &mut len);
                        let got = if p.is_null() { None } else { Some(String::from_utf8_lossy(std::slice::from_raw_parts(p.cast::<u8>(), len)).to_string()) };
                        if !p.is_null() {
                            libc::free(p.cast());
                        }
                        let ok = match (&got, nm.is_empty()) {
                            (None, true) => true,
                            (Some(g), true) => g.is_empty(),
                            (Some(g), false) => g == nm,
                            (None, false) => false,
                        };
                        if !ok || (got.is_some() && len != got.as_ref().unwrap().len()) {
                            return Err(format!("names: {what}: var_name({i}) = {got:?} (len {len}), model {nm:?}"));
                        }
                    }
                    for cand in NAMES {
                        let r = f!(name_to_var)(mgr, cand.as_ptr().cast(), cand.len());
                        let exp = if cand.is_empty() { u32::MAX } else { names.iter().position(|x| x == cand).map(|p| p as u32).unwrap_or(u32::MAX) };
                        if r != exp {
                            return Err(format!("names: {what}: name_to_var({cand:?}) = {r}, model {exp}"));
                        }
                    }
                    let nn = f!(num_named_vars)(mgr);
                    let exp = names.iter().filter(|x| !x.is_empty()).count() as u32;
                    if nn != exp {
                        return Err(format!("names: {what}: num_named_vars = {nn}, model {exp}"));
                    }
                    st.name_ops += 1;
                }
                FOp::DddmpRoundTrip(a, b, two) => {
                    let Some((ha, ta)) = get(*a, &pool) else { continue };
                    let mut fs = vec![(ha, ta)];
                    if *two {
                        if let Some(x) = get(*b, &pool) {
                            fs.push(x);
                        }
                    }
                    // kind-independent helpers of the same library
                    let sym = |name: &str| -> *mut c_void {
                        let c = CString::new(name).unwrap();
                        libc::dlsym(lib, c.as_ptr())
                    };
                    let (p_open, p_close, p_roots, p_vars) = (sym("oxidd_dddmp_open"), sym("oxidd_dddmp_close"), sym("oxidd_dddmp_num_roots"), sym("oxidd_dddmp_num_vars"));
                    if p_open.is_null() || p_close.is_null() || p_roots.is_null() || p_vars.is_null() {
                        return Err("symbol-missing: oxidd_dddmp_open/close/num_roots/num_vars".into());
                    }
                    let d_open: unsafe extern "C" fn(*const std::ffi::c_char, usize, *mut c_void) -> *mut c_void = std::mem::transmute(p_open);
                    let d_close: unsafe extern "C" fn(*mut c_void) = std::mem::transmute(p_close);
                    let d_roots: unsafe extern "C" fn(*const c_void) -> usize = std::mem::transmute(p_roots);
                    let d_vars: unsafe extern "C" fn(*const c_void) -> u32 = std::mem::transmute(p_vars);
                    let dir = format!("{}/target/tmp", verif_dir());
                    let _ = std::fs::create_dir_all(&dir);
                    let path = format!("{dir}/c19-{}.dddmp", std::process::id());
                    let hs: Vec<H> = fs.iter().map(|x| x.0).collect();
                    let ok = f!(export_dddmp)(mgr, path.as_ptr().cast(), path.len(), hs.as_ptr(), hs.len(), std::ptr::null(), std::ptr::null(), std::ptr::null_mut());
                    st.checks += 1;
                    if !ok {
                        let _ = std::fs::remove_file(&path);
                        return Err(format!("dddmp-export: {what}: oxidd_*_manager_export_dddmp returned false"));
                    }
                    let file = d_open(path.as_ptr().cast(), path.len(), std::ptr::null_mut());
                    if file.is_null() {
                        let _ = std::fs::remove_file(&path);
                        return Err(format!("dddmp-open: {what}: oxidd_dddmp_open rejects the file written by the export function"));
                    }
                    if d_roots(file) != hs.len() || d_vars(file) != n {
                        let r = format!("dddmp-header: {what}: file reports {} roots / {} variables, exported {} / {n}", d_roots(file), d_vars(file), hs.len());
                        d_close(file);
                        let _ = std::fs::remove_file(&path);
                        return Err(r);
                    }
                    // header accessors: .ids ascending, the support order is the same set sorted by
                    // the current level, support_var_to_level gives exactly those levels
                    #[repr(C)]
                    struct Slice {
                        ptr: *const u32,
                        len: usize,
                    }
                    let (p_sv, p_svo, p_svl) = (sym("oxidd_dddmp_support_vars"), sym("oxidd_dddmp_support_var_order"), sym("oxidd_dddmp_support_var_to_level"));
                    if p_sv.is_null() || p_svo.is_null() || p_svl.is_null() {
                        d_close(file);
                        return Err("symbol-missing: oxidd_dddmp_support_vars/support_var_order/support_var_to_level".into());
                    }
                    let rd = |p: *mut c_void| -> Vec<u32> {
                        let f: unsafe extern "C" fn(*const c_void) -> Slice = std::mem::transmute(p);
                        let s = f(file);
                        if s.ptr.is_null() { vec![] } else { std::slice::from_raw_parts(s.ptr, s.len).to_vec() }
                    };
                    let (sv, svo, svl) = (rd(p_sv), rd(p_svo), rd(p_svl));
                    let v2l = f!(var_to_level);
                    let mut by_level = sv.clone();
                    by_level.sort_by_key(|v| v2l(mgr, *v));
                    let levels: Vec<u32> = sv.iter().map(|v| v2l(mgr, *v)).collect();
                    st.checks += 1;
                    if !sv.windows(2).all(|w| w[0] < w[1]) || sv.iter().any(|v| *v >= n) || svo != by_level || svl != levels {
                        d_close(file);
                        let _ = std::fs::remove_file(&path);
                        return Err(format!("dddmp-header: {what}: support_vars {sv:?}, support_var_order {svo:?} (expected {by_level:?}: the support sorted by level), support_var_to_level {svl:?} (expected {levels:?})"));
                    }
                    if kind != BKind::Zbdd {
                        // BDD/BCDD: the support is the set of variables the exported functions depend on
                        let dep: Vec<u32> = (0..n).filter(|v| fs.iter().any(|x| x.1.depends(*v))).collect();
                        if sv != dep {
                            d_close(file);
                            let _ = std::fs::remove_file(&path);
                            return Err(format!("dddmp-header: {what}: support_vars {sv:?}, the exported functions depend on {dep:?}"));
                        }
                    }
                    let mut out = vec![INVALID; hs.len()];
                    // import with the default (NULL) or with the explicit support order from the accessor
                    let explicit = *two && !svo.is_empty();
                    let ok = f!(import_dddmp)(mgr, file, if explicit { svo.as_ptr() } else { std::ptr::null() }, out.as_mut_ptr(), std::ptr::null_mut());
                    d_close(file);
                    let _ = std::fs::remove_file(&path);
                    if !ok {
                        return Err(format!("dddmp-import: {what}: import of the exported file into the same manager failed"));
                    }
                    st.dddmp_roundtrips += 1;
                    for (k, h) in out.into_iter().enumerate() {
                        // same manager: the imported function is the exported handle; the caller owns a new reference
                        if h != hs[k] {
                            if !h.p.is_null() {
                                f!(unref)(h);
                            }
                            return Err(format!("dddmp-roundtrip: {what}: imported root {k} is not the exported function"));
                        }
                        own!(h, fs[k].1, what);
                    }
                }
                FOp::ContainingManager(a) => {
                    let Some((ha, _)) = get(*a, &pool) else { continue };
                    let m2 = f!(containing_manager)(ha);
                    st.checks += 1;
                    if m2.p != mgr.p {
                        return Err(format!("wrong-result: {what}: containing_manager returned another manager"));
                    }
                    let m3 = f!(manager_ref)(m2);
                    f!(manager_unref)(m3);
                    f!(manager_unref)(m2);
                }
                FOp::ZSingleton(v) => {
                    if kind != BKind::Zbdd || n == 0 {
                        continue;
                    }
                    let v = sel(*v, n as usize) as u32;
                    own!(f!(singleton)(mgr, v), TT::from_fn(n, |s| s == 1 << v), what);
                }
                FOp::ZBase => {
                    if kind != BKind::Zbdd {
                        continue;
                    }
                    own!(f!(base)(mgr), TT::from_fn(n, |s| s == 0), what);
                    own!(f!(empty)(mgr), TT::zero(n), what);
                }
                FOp::ZSub(which, a, v) => {
                    if kind != BKind::Zbdd || n == 0 {
                        continue;
                    }
                    let Some((ha, ta)) = get(*a, &pool) else { continue };
                    let v = sel(*v, n as usize) as u32;
                    let bit = 1usize << v;
                    let fam = |f: &dyn Fn(usize) -> Option<usize>| {
                        let mut r = TT::zero(n);
                        for s in 0..ta.size() {
                            if ta.get(s) {
                                if let Some(d) = f(s) {
                                    r.set(d, true);
                                }
                            }
                        }
                        r
                    };
                    let (r, t) = match which % 3 {
                        0 => (f!(subset0)(ha, v), fam(&|s| if s & bit == 0 { Some(s) } else { None })),
                        1 => (f!(subset1)(ha, v), fam(&|s| if s & bit != 0 { Some(s & !bit) } else { None })),
                        _ => (f!(change)(ha, v), fam(&|s| Some(s ^ bit))),
                    };
                    own!(r, t, what);
                }
                FOp::ZSet(which, a, b) => {
                    if kind != BKind::Zbdd {
                        continue;
                    }
                    let (Some((ha, ta)), Some((hb, tb))) = (get(*a, &pool), get(*b, &pool)) else { continue };
                    let (r, t) = match which % 3 {
                        0 => (f!(union)(ha, hb), ta.or(&tb)),
                        1 => (f!(intsec)(ha, hb), ta.and(&tb)),
                        _ => (f!(diff)(ha, hb), ta.and(&tb.not())),
                    };
                    own!(r, t, what);
                }
                FOp::ZMakeNode(v, a) => {
                    if kind != BKind::Zbdd || n == 0 {
                        continue;
                    }
                    // make_node takes ownership of hi and lo: pass fresh references
                    let Some((ha, ta)) = get(*a, &pool) else { continue };
                    let lvl = f!(node_level)(ha);
                    // variable strictly above ha's root
                    let top = if lvl == u32::MAX { n } else { lvl };
                    if top == 0 {
                        continue;
                    }
                    let l = sel(*v, top as usize) as u32;
                    let var = f!(level_to_var)(mgr, l);
                    let sg = f!(singleton)(mgr, var);
                    let hi = f!(fref)(ha);
                    let lo = f!(fref)(ha);
                    let r = f!(make_node)(sg, hi, lo);
                    f!(unref)(sg);
                    let t = TT::from_fn(n, |s| ta.get(s) || (s & (1 << var) != 0 && ta.get(s & !(1 << var))));
                    own!(r, t, what);
                }
            }
        }
        // final release: everything the ledger owns is unref'ed exactly once
        for (h, _) in pool.drain(..) {
            f!(unref)(h);
        }
        f!(gc)(mgr);
        let left = f!(num_inner_nodes)(mgr);
        let baseline = if kind == BKind::Zbdd { n as usize } else { 0 };
        st.checks += 1;
        if left != baseline {
            return Err(format!("ownership-balance: after unref'ing every handle and gc the manager still holds {left} inner nodes (expected {baseline})"));
        }
        f!(manager_unref)(mgr);
        Ok(st)
    }
}

fn fop_strategy() -> impl Strategy<Value = FOp> {
    let s = any::<u16>;
    let b = || (0usize..8).prop_map(|i| BINOPS[i]);
    prop_oneof![
        2 => any::<bool>().prop_map(FOp::Const),
        8 => s().prop_map(FOp::Var),
        3 => s().prop_map(FOp::NotVar),
        4 => s().prop_map(FOp::Not),
        24 => (b(), s(), s()).prop_map(|(o, a, c)| FOp::Bin(o, a, c)),
        6 => (s(), s(), s()).prop_map(|(a, c, d)| FOp::Ite(a, c, d)),
        4 => (s(), s(), s()).prop_map(|(a, c, d)| FOp::Restrict(a, c, d)),
        4 => (0u8..3, s(), s()).prop_map(|(q, a, m)| FOp::Quant(q, a, m)),
        4 => (0u8..3, b(), s(), s(), s()).prop_map(|(q, o, a, c, m)| FOp::ApplyQuant(q, o, a, c, m)),
        4 => (s(), s(), proptest::collection::vec(s(), 1..4)).prop_map(|(a, m, r)| FOp::Subst(a, m, r)),
        3 => s().prop_map(FOp::Cofactors),
        3 => (s(), any::<bool>()).prop_map(|(a, w)| FOp::CofactorOne(a, w)),
        5 => s().prop_map(FOp::Ref),
        10 => s().prop_map(FOp::Unref),
        6 => Just(FOp::Gc),
        2 => (1u8..3).prop_map(FOp::AddVars),
        3 => proptest::collection::vec(s(), 8).prop_map(FOp::SetOrder),
        5 => (any::<u8>(), s()).prop_map(|(w, a)| FOp::Invalid(w, a)),
        3 => s().prop_map(FOp::PickCube),
        2 => s().prop_map(FOp::PickCubeDd),
        2 => (s(), s(), s()).prop_map(|(a, p, n)| FOp::PickCubeDdSet(a, p, n)),
        1 => s().prop_map(FOp::ContainingManager),
        2 => (s(), s(), any::<bool>()).prop_map(|(a, b, two)| FOp::DddmpRoundTrip(a, b, two)),
        3 => (s(), any::<u8>()).prop_map(|(v, k)| FOp::Name(v, k)),
        3 => s().prop_map(FOp::ZSingleton),
        1 => Just(FOp::ZBase),
        4 => (any::<u8>(), s(), s()).prop_map(|(w, a, v)| FOp::ZSub(w, a, v)),
        4 => (any::<u8>(), s(), s()).prop_map(|(w, a, c)| FOp::ZSet(w, a, c)),
        2 => (s(), s()).prop_map(|(v, a)| FOp::ZMakeNode(v, a)),
    ]
}

fn case_strategy() -> impl Strategy<Value = FCase> {
    (2u32..=6, proptest::collection::vec(any::<u16>(), 8), proptest::collection::vec(fop_strategy(), 10..70), proptest::sample::select(vec![1u32, 1, 4])).prop_map(|(n0, order_keys, ops, threads)| FCase { n0, order_keys, ops, threads })
}

fn kind_of(s: &str) -> BKind {
    match s {
        "bdd" => BKind::Bdd,
        "bcdd" => BKind::Bcdd,
        _ => BKind::Zbdd,
    }
}

fn case_isolated(kind: BKind, kname: &str, c: &FCase) -> Result<FStat, String> {
    let out = isolated(120, |w| {
        progress(&json!({"sig": format!("C19/{kname}/crash"), "kind": kname, "case": c}).to_string());
        let r = run_case(kind, c);
        let _ = writeln!(w, "{}", json!({"ok": r.as_ref().ok(), "err": r.as_ref().err()}));
    });
    match out.end {
        End::Exit(0) => {
            let v: Value = out.lines.iter().filter_map(|l| serde_json::from_str(l).ok()).find(|v: &Value| v.get("ok").is_some() || v.get("err").is_some()).unwrap_or(json!({"err": "crash: no verdict"}));
            match v["err"].as_str() {
                Some(e) => Err(e.to_string()),
                None => serde_json::from_value(v["ok"].clone()).map_err(|e| e.to_string()),
            }
        }
        End::Timeout => Err("timeout: watchdog".into()),
        e => Err(format!("crash: process ended {e:?} (abort/segfault inside the C API)")),
    }
}

fn campaign(kname: &'static str, seed: u64, cases: u32, rep: &mut Report) {
    let kind = kind_of(kname);
    let mut nt = 0u64;
    let mut evals = 0u64;
    let mut samples = vec![];
    let mut agg: std::collections::BTreeMap<String, u64> = Default::default();
    let out = crate::pt::run2(
        seed,
        cases,
        &case_strategy(),
        |_| {},
        |c, r: &Result<FStat, String>| {
            if let Ok(s) = r {
                evals += s.checks;
                if s.retained_operand_results > 0 && s.invalid_calls > 0 && s.gc_checks > 0 {
                    nt += 1;
                    if samples.len() < 1 {
                        samples.push(json!({"kind": kname, "case": c}));
                    }
                }
                for (k, v) in [("new_handles", s.new_handles), ("invalid_calls", s.invalid_calls), ("gc_balance_checks", s.gc_checks), ("dddmp_roundtrips_through_c", s.dddmp_roundtrips), ("name_operations_through_c", s.name_ops)] {
                    *agg.entry(format!("{kname}.{k}")).or_insert(0) += v;
                }
            }
        },
        |c| match case_isolated(kind, kname, c) {
            Err(m) if m.starts_with("timeout") => Ok(FStat::default()),
            r => r,
        },
    );
    rep.evaluations += evals;
    rep.nontrivial += nt;
    rep.class_n(&format!("{kname}.sequences"), out.cases);
    for (k, v) in agg {
        rep.class_n(&k, v);
    }
    for s in samples {
        rep.sample(s);
    }
    if let Some((c, msg)) = out.failure {
        if msg.starts_with("harness:") {
            rep.inconclusive.push(msg);
        } else {
            rep.viol(format!("C19/{kname}/{}", crate::hrun::category(&msg)), msg, json!({"kind": kname, "case": c}));
        }
    }
}

pub fn build_lib() -> Result<(), String> {
    let vd = verif_dir();
    let st = Command::new("cargo")
        .current_dir("/repo")
        .env("CARGO_NET_OFFLINE", "true")
        .args(["build", "--release", "--offline", "-p", "oxidd-ffi-c", "--target-dir", &format!("{vd}/target/ffi")])
        .output()
        .map_err(|e| format!("cargo: {e}"))?;
    if !st.status.success() {
        return Err(format!("building liboxidd_ffi_c.so failed:\n{}", String::from_utf8_lossy(&st.stderr).lines().filter(|l| l.starts_with("error")).take(5).collect::<Vec<_>>().join("\n")));
    }
    Ok(())
}

pub fn run(cfg: &Cfg) -> i32 {
    let start = Instant::now();
    if let Err(e) = build_lib() {
        println!("INCONCLUSIVE: {e}");
        return 2;
    }
    if let Some(path) = cfg.replay.as_ref().filter(|p| replay_case_is(p, |c| c["case"].is_object())) {
        let v: Value = serde_json::from_str(&std::fs::read_to_string(path).expect("replay file")).expect("json");
        let c: FCase = serde_json::from_value(v["case"]["case"].clone()).expect("case");
        let kname = v["case"]["kind"].as_str().unwrap_or("bdd").to_string();
        return match case_isolated(kind_of(&kname), &kname, &c) {
            Ok(_) => {
                println!("replay: case passes");
                0
            }
            Err(m) => {
                println!("VIOLATION property=C19 replay={path}\n  what: {m}");
                1
            }
        };
    }
    let mut jobs: Vec<Box<dyn FnMut(&mut dyn Write) + '_>> = vec![];
    let mut names = vec![];
    for (ki, kname) in ["bdd", "bcdd", "zbdd"].into_iter().enumerate() {
        for sh in 0..cfg.t(4, 8) {
            let seed = mix(cfg.seed ^ (0xc19_000 + ki as u64 * 100 + sh as u64));
            let cases = cfg.t(700, 8000);
            names.push(format!("{kname}/{sh}"));
            jobs.push(Box::new(move |w: &mut dyn Write| {
                let mut rep = Report::default();
                campaign(kname, seed, cases, &mut rep);
                rep.emit(w);
            }));
        }
    }
    let outs = run_jobs(&mut jobs, cfg.par, cfg.t(900, 7200));
    drop(jobs);
    let mut total = Report::default();
    merge_jobs(&mut total, outs, &names);
    conclude(
        cfg,
        &total,
        Meta {
            level: "exploration",
            rule: "proptest call sequences (10..70 calls) over the exported oxidd_{bdd,bcdd,zbdd}_* symbols of the freshly built liboxidd_ffi_c.so (loaded with dlopen, prototypes declared by hand): manager_new/ref/unref, add_vars, set_var_order, var/level maps, gc, constants, var/not_var, all connectives, ite, restrict, quantifiers and apply-quantify, substitution objects (new/add_pair/substitute twice/free), cofactors, ref/unref, node_count/level/var, satisfiable/valid, sat_count_double, pick_cube(+assignment_free)/pick_cube_dd/pick_cube_dd_set, eval, containing_manager, variable names through C (set_var_name incl. NULL/empty/duplicate/non-ASCII names, var_name with free(), name_to_var, num_named_vars against a Vec<String> model), DDDMP round trips through C (manager_export_dddmp with NULL settings/names/error -> oxidd_dddmp_open/num_roots/num_vars/support_vars/support_var_order/support_var_to_level (checked against the manager's current order and the functions' dependencies) -> manager_import_dddmp with NULL or the explicit support order into the same manager: the imported handles must be the exported ones and are owned by the caller), ZBDD singleton/base/empty/subset0/subset1/change/union/intsec/diff/make_node (which consumes hi and lo - also when var, hi or lo is the invalid handle), and calls with the invalid handle at every operand position. Oracle: the harness keeps a ledger of the handles it owns with their truth tables (model = what the Rust API yields by C02-C04/C09): every returned handle must evaluate (oxidd_*_eval on all assignments) to the model table and have the reference node count; an invalid operand must give an invalid result; after every gc the manager must hold exactly the inner nodes of the shared reduced diagram of the owned tables (a leaked reference shows up as a surplus, an over-release as a deficit or crash); at the end every owned handle is unref'ed once and the manager must be back at its baseline. Each sequence runs in a forked child (a segfault/abort is a verdict). Non-trivial = sequence with a result whose operands stay owned, at least one invalid-handle call and at least one gc balance check.",
            assumptions: vec!["manager handle balance (strong count) is not observable through the public C API and is not checked".into(), "C++/Python layers are not built here (no CMake/pytest offline)".into(), "DDDMP/DOT export through the C API is not driven".into()],
            extra: json!({"library": lib_path()}),
        },
        start,
    )
}
