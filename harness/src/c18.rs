//! C18 — circuit simplification is equivalence-preserving and total; parsers are total.

use std::collections::{HashMap, HashSet};
use std::io::Write;
use std::time::Instant;

use oxidd_parser::{Circuit, GateKind, Literal, ParseOptions, ParseOptionsBuilder, Problem, VarSet};
use proptest::prelude::*;
use serde::{Deserialize, Serialize};
use serde_json::json;

use crate::engine::*;

// ---------------------------------------------------------------------------
// circuit model
// ---------------------------------------------------------------------------

#[derive(Clone, Copy, Debug, PartialEq, Eq, Hash, Serialize, Deserialize)]
pub enum L {
    F,
    T,
    In(bool, u8),   // negative?, input number (may be unknown: >= inputs)
    Gate(bool, u8), // negative?, gate number (always < number of gates)
    Undef,
}

#[derive(Clone, Debug, PartialEq, Serialize, Deserialize)]
pub struct CSpec {
    pub inputs: u8,
    pub gates: Vec<(u8, Vec<L>)>, // kind 0 and 1 or 2 xor
    pub roots: Vec<L>,
}

fn lit(l: L) -> Literal {
    match l {
        L::F => Literal::FALSE,
        L::T => Literal::TRUE,
        L::In(n, i) => Literal::from_input(n, i as usize),
        L::Gate(n, g) => Literal::from_gate(n, g as usize),
        L::Undef => Literal::UNDEF,
    }
}

fn kind(k: u8) -> GateKind {
    match k % 3 {
        0 => GateKind::And,
        1 => GateKind::Or,
        _ => GateKind::Xor,
    }
}

fn build(spec: &CSpec) -> Circuit {
    let mut c = Circuit::new(VarSet::new(spec.inputs as usize));
    for (k, ins) in &spec.gates {
        c.push_gate(kind(*k));
        c.push_gate_inputs(ins.iter().map(|l| lit(*l)));
    }
    c
}

#[derive(Clone, Copy, PartialEq, Eq, Debug, Hash)]
enum Val {
    B(bool),
    Cycle,
}

/// direct evaluation of a circuit; `unknown(input_no)` gives the value of unknown inputs
fn eval(c: &Circuit, l: Literal, asg: usize, unknown: &dyn Fn(usize) -> bool, state: &mut HashMap<usize, Option<bool>>) -> Val {
    let n_in = c.inputs().len();
    let base = if l == Literal::FALSE || l == Literal::TRUE {
        Val::B(l == Literal::TRUE)
    } else if let Some(g) = l.get_gate_no() {
        match state.get(&g) {
            Some(Some(b)) => Val::B(*b ^ l.is_negative()),
            Some(None) => Val::Cycle,
            None => {
                state.insert(g, None);
                let Some(gate) = c.gate_for_no(g) else { return Val::Cycle };
                let mut acc = match gate.kind {
                    GateKind::And => true,
                    GateKind::Or | GateKind::Xor => false,
                };
                for &i in gate.inputs {
                    match eval(c, i, asg, unknown, state) {
                        Val::Cycle => return Val::Cycle,
                        Val::B(b) => match gate.kind {
                            GateKind::And => acc &= b,
                            GateKind::Or => acc |= b,
                            GateKind::Xor => acc ^= b,
                        },
                    }
                }
                state.insert(g, Some(acc));
                Val::B(acc ^ l.is_negative())
            }
        }
    } else {
        let i = l.get_input().unwrap();
        let b = if i < n_in { (asg >> i) & 1 == 1 } else { unknown(i) };
        Val::B(b ^ l.is_negative())
    };
    if l == Literal::FALSE || l == Literal::TRUE || l.get_gate_no().is_some() { base } else { base }
}

struct Reach {
    gates: Vec<usize>,
    on_cycle: HashSet<usize>,
    unknown: HashSet<usize>, // positive literal codes of unknown inputs (input numbers)
}

fn reach(c: &Circuit, roots: &[Literal]) -> Reach {
    let n_in = c.inputs().len();
    let mut seen = HashSet::new();
    let mut order = vec![];
    let mut unknown = HashSet::new();
    let mut stack: Vec<usize> = roots.iter().filter_map(|r| r.get_gate_no()).collect();
    while let Some(g) = stack.pop() {
        if !seen.insert(g) {
            continue;
        }
        order.push(g);
        if let Some(gate) = c.gate_for_no(g) {
            for &i in gate.inputs {
                if let Some(h) = i.get_gate_no() {
                    stack.push(h);
                } else if i != Literal::FALSE && i != Literal::TRUE {
                    let n = i.get_input().unwrap();
                    if n >= n_in {
                        unknown.insert(n);
                    }
                }
            }
        }
    }
    // gates on a cycle: g reaches itself
    let mut on_cycle = HashSet::new();
    for &g in &order {
        let mut st: Vec<usize> = c.gate_for_no(g).map(|x| x.inputs.iter().filter_map(|i| i.get_gate_no()).collect()).unwrap_or_default();
        let mut vis = HashSet::new();
        while let Some(h) = st.pop() {
            if h == g {
                on_cycle.insert(g);
                break;
            }
            if vis.insert(h) {
                if let Some(gate) = c.gate_for_no(h) {
                    st.extend(gate.inputs.iter().filter_map(|i| i.get_gate_no()));
                }
            }
        }
    }
    Reach { gates: order, on_cycle, unknown }
}

#[derive(Default)]
pub struct CStat {
    pub checks: u64,
    pub collapsed_used: bool,
    pub dup_or_compl: bool,
    pub errs: bool,
}

pub fn check_circuit(spec: &CSpec) -> Result<CStat, String> {
    let c = build(spec);
    let roots: Vec<Literal> = spec.roots.iter().map(|l| lit(*l)).collect();
    let r = reach(&c, &roots);
    let n_in = c.inputs().len();
    let mut st = CStat::default();
    let res = std::panic::catch_unwind(std::panic::AssertUnwindSafe(|| c.simplify(roots.iter().copied())));
    let res = match res {
        Ok(r) => r,
        Err(e) => return Err(format!("panic: simplify panicked: {}", panic_msg(&e))),
    };
    st.checks += 1;
    // does any reachable gate's value depend on an unknown input?
    let unknown_list: Vec<usize> = r.unknown.iter().copied().collect();
    let combos = 1usize << unknown_list.len().min(3);
    let value = |l: Literal, asg: usize, combo: usize| -> Val {
        eval(&c, l, asg, &|i| unknown_list.iter().position(|&u| u == i).map_or(false, |p| (combo >> p.min(2)) & 1 == 1), &mut HashMap::new())
    };
    match res {
        Err(l) => {
            st.errs = true;
            let g_ok = l.get_gate_no().map_or(false, |g| r.on_cycle.contains(&g));
            let u_ok = l.is_input() && l != Literal::FALSE && l != Literal::TRUE && l.get_input().map_or(false, |i| r.unknown.contains(&i));
            if !(g_ok || u_ok) {
                return Err(format!("unjustified-error: simplify returned Err({l:?}) but the reachable part has cycle gates {:?} and unknown inputs {:?}", r.on_cycle, r.unknown));
            }
            Ok(st)
        }
        Ok((new, map)) => {
            if !r.on_cycle.is_empty() {
                return Err(format!("cycle-not-reported: reachable gates {:?} lie on a cycle but simplify returned Ok", r.on_cycle));
            }
            if map.len() != c.num_gates() {
                return Err(format!("map-len: gate map has {} entries for {} gates", map.len(), c.num_gates()));
            }
            // new circuit: well-formed, normal form, topologically sorted
            let ng = new.num_gates();
            let mut sigs = HashSet::new();
            for (gi, gate) in new.iter_gates().enumerate() {
                if gate.inputs.len() < 2 {
                    return Err(format!("nf4-arity: new gate {gi} has {} inputs", gate.inputs.len()));
                }
                let mut vars = HashSet::new();
                for &i in gate.inputs {
                    if i == Literal::FALSE || i == Literal::TRUE {
                        return Err(format!("nf1-constant-input: new gate {gi} = {gate:?} has a constant input"));
                    }
                    if gate.kind == GateKind::Xor && i.is_negative() {
                        return Err(format!("nf2-xor-negative-input: new gate {gi} = {gate:?}"));
                    }
                    if !vars.insert(i.positive()) {
                        return Err(format!("nf3-duplicate-input: new gate {gi} = {gate:?}"));
                    }
                    if let Some(h) = i.get_gate_no() {
                        if h >= gi {
                            return Err(format!("topo: new gate {gi} = {gate:?} refers to gate {h}"));
                        }
                    } else if i.get_input().map_or(true, |x| x >= n_in) {
                        return Err(format!("unknown-input-not-reported: new gate {gi} = {gate:?} uses an input that does not exist ({} inputs)", n_in));
                    }
                }
                let mut s: Vec<Literal> = gate.inputs.to_vec();
                s.sort();
                if !sigs.insert((gate.kind, s)) {
                    return Err(format!("nf5-duplicate-gate: new gate {gi} = {gate:?} is structurally equal to an earlier gate"));
                }
            }
            let reachable: HashSet<usize> = r.gates.iter().copied().collect();
            for g in 0..c.num_gates() {
                let m = map[g];
                if !reachable.contains(&g) {
                    if m != Literal::UNDEF {
                        return Err(format!("map-unreachable: gate {g} is unreachable but mapped to {m:?}"));
                    }
                    continue;
                }
                // valid literal of the new circuit
                let valid = m == Literal::FALSE || m == Literal::TRUE || m.get_gate_no().map_or(false, |h| h < ng) || (m.is_input() && m.get_input().map_or(false, |i| i < n_in));
                if !valid {
                    return Err(format!("map-invalid: reachable gate {g} mapped to {m:?} (new circuit has {ng} gates, {n_in} inputs)"));
                }
                if m == Literal::FALSE || m == Literal::TRUE || m.is_input() {
                    st.collapsed_used = st.collapsed_used || c.iter_gates().any(|x| x.inputs.iter().any(|i| i.get_gate_no() == Some(g)));
                }
                // equivalence on all assignments (and all values of unknown inputs)
                for asg in 0..(1usize << n_in) {
                    let mut vals = HashSet::new();
                    for combo in 0..combos {
                        vals.insert(value(Literal::from_gate(false, g), asg, combo));
                    }
                    st.checks += 1;
                    if vals.len() != 1 {
                        return Err(format!("unknown-input-not-reported: reachable gate {g} depends on unknown inputs {:?} but simplify returned Ok", r.unknown));
                    }
                    let Val::B(old) = *vals.iter().next().unwrap() else { return Err("harness: cycle".into()) };
                    let Val::B(newv) = eval(&new, m, asg, &|_| false, &mut HashMap::new()) else { return Err(format!("new-cycle: new circuit is cyclic at {m:?}")) };
                    if old != newv {
                        return Err(format!("not-equivalent: gate {g} evaluates to {old} but its image {m:?} in the simplified circuit to {newv} under input assignment {asg:b}"));
                    }
                }
            }
            for (_, ins) in &spec.gates {
                let mut pos = HashSet::new();
                if ins.iter().any(|l| !pos.insert(lit(*l).positive())) {
                    st.dup_or_compl = true;
                }
            }
            Ok(st)
        }
    }
}

fn literals(inputs: u8, gates: u8, with_unknown: bool) -> Vec<L> {
    let mut v = vec![L::F, L::T];
    for i in 0..inputs {
        v.push(L::In(false, i));
        v.push(L::In(true, i));
    }
    for g in 0..gates {
        v.push(L::Gate(false, g));
        v.push(L::Gate(true, g));
    }
    if with_unknown {
        v.push(L::In(false, inputs));
        v.push(L::In(true, inputs + 1));
        v.push(L::Undef);
    }
    v
}

fn gate_variants(lits: &[L], maxlen: usize) -> Vec<(u8, Vec<L>)> {
    let mut lists: Vec<Vec<L>> = vec![vec![]];
    let mut cur: Vec<Vec<L>> = vec![vec![]];
    for _ in 0..maxlen {
        let mut next = vec![];
        for l in &cur {
            for x in lits {
                let mut n = l.clone();
                n.push(*x);
                next.push(n);
            }
        }
        lists.extend(next.iter().cloned());
        cur = next;
    }
    let mut out = vec![];
    for k in 0..3u8 {
        for l in &lists {
            out.push((k, l.clone()));
        }
    }
    out
}

fn exhaustive(inputs: u8, ngates: u8, maxlen: usize, with_unknown: bool, shard: usize, shards: usize, rep: &mut Report) {
    let lits = literals(inputs, ngates, with_unknown);
    let variants = gate_variants(&lits, maxlen);
    let nv = variants.len();
    let total = nv.pow(ngates as u32);
    progress(&json!({"sig": "C18/simplify/exhaustive/crash", "inputs": inputs, "gates": ngates}).to_string());
    let mut count = 0u64;
    for code in (shard..total).step_by(shards) {
        let mut c = code;
        let mut gates = vec![];
        for _ in 0..ngates {
            gates.push(variants[c % nv].clone());
            c /= nv;
        }
        // roots: every gate and both constants
        let mut roots: Vec<L> = (0..ngates).map(|g| L::Gate(g % 2 == 1, g)).collect();
        roots.push(L::T);
        for rs in [roots.clone(), vec![L::Gate(false, ngates - 1)]] {
            let spec = CSpec { inputs, gates: gates.clone(), roots: rs };
            count += 1;
            match check_circuit(&spec) {
                Ok(st) => {
                    rep.evaluations += st.checks;
                    if st.collapsed_used || st.dup_or_compl {
                        rep.nontrivial += 1;
                    }
                    if st.errs {
                        rep.class("simplify.error_results");
                    }
                }
                Err(m) => rep.viol(format!("C18/simplify/{}", crate::hrun::category(&m)), m, json!({"circuit": spec})),
            }
        }
        if rep.viols.len() > 30 {
            break;
        }
    }
    rep.class_n(&format!("simplify.exhaustive.in{inputs}.g{ngates}.len{maxlen}{}", if with_unknown { ".unknown" } else { "" }), count);
}

fn l_strategy(inputs: u8, gates: u8, acyclic_below: Option<u8>) -> BoxedStrategy<L> {
    let g_hi = acyclic_below.unwrap_or(gates);
    let mut opts: Vec<(u32, BoxedStrategy<L>)> = vec![(1, Just(L::F).boxed()), (1, Just(L::T).boxed())];
    if inputs > 0 {
        opts.push((8, (any::<bool>(), 0..inputs).prop_map(|(n, i)| L::In(n, i)).boxed()));
    }
    if g_hi > 0 {
        opts.push((8, (any::<bool>(), 0..g_hi).prop_map(|(n, g)| L::Gate(n, g)).boxed()));
    }
    proptest::strategy::Union::new_weighted(opts).boxed()
}

fn random_job(seed: u64, cases: u32, rep: &mut Report) {
    // mostly acyclic larger circuits; small share with arbitrary references and unknown inputs
    let strat = (1u8..=8, 1u8..=30, any::<bool>()).prop_flat_map(|(inputs, ngates, wild)| {
        let gates: Vec<BoxedStrategy<(u8, Vec<L>)>> = (0..ngates)
            .map(|g| {
                let ls = if wild && g % 5 == 4 {
                    prop_oneof![9 => l_strategy(inputs, ngates, None), 1 => Just(L::In(false, inputs)), 1 => Just(L::Undef)].boxed()
                } else {
                    l_strategy(inputs, ngates, Some(g))
                };
                (0u8..3, proptest::collection::vec(ls, 0..5)).boxed()
            })
            .collect();
        (Just(inputs), gates, proptest::collection::vec((any::<bool>(), 0..ngates), 1..4))
    });
    let mut nt = 0u64;
    let mut evals = 0u64;
    let mut samples = vec![];
    let out = crate::pt::run2(
        seed,
        cases,
        &strat,
        |_| {},
        |c, r: &Result<(bool, u64), String>| {
            if let Ok((n, e)) = r {
                evals += e;
                if *n {
                    nt += 1;
                    if samples.len() < 2 {
                        samples.push(json!({"inputs": c.0, "gates": c.1.iter().take(8).collect::<Vec<_>>(), "roots": c.2}));
                    }
                }
            }
        },
        |(inputs, gates, roots)| {
            let spec = CSpec { inputs: *inputs, gates: gates.clone(), roots: roots.iter().map(|(n, g)| L::Gate(*n, *g)).collect() };
            progress(&json!({"sig": "C18/simplify/random/crash", "circuit": spec}).to_string());
            check_circuit(&spec).map(|st| (st.collapsed_used || st.dup_or_compl, st.checks))
        },
    );
    rep.evaluations += evals;
    rep.nontrivial += nt;
    rep.class_n("simplify.random_circuits", out.cases);
    for s in samples {
        rep.sample(s);
    }
    if let Some(((inputs, gates, roots), msg)) = out.failure {
        let spec = CSpec { inputs, gates, roots: roots.iter().map(|(n, g)| L::Gate(*n, *g)).collect() };
        rep.viol(format!("C18/simplify/{}", crate::hrun::category(&msg)), msg, json!({"circuit": spec}));
    }
}

// ---------------------------------------------------------------------------
// parsers
// ---------------------------------------------------------------------------

type NErr<'a> = nom::error::VerboseError<&'a [u8]>;

pub fn opts(order: bool, tree: bool, acyclic: bool) -> ParseOptions {
    ParseOptionsBuilder::default().var_order(order).clause_tree(tree).check_acyclic(acyclic).build().unwrap()
}

/// parse with all three parsers; returns Err(msg) on panic
pub fn parse_all(data: &[u8], o: &ParseOptions) -> Result<[Option<Problem>; 3], String> {
    let r = std::panic::catch_unwind(std::panic::AssertUnwindSafe(|| {
        let a = oxidd_parser::aiger::parse::<NErr>(o)(data).ok().map(|x| x.1);
        let d = oxidd_parser::dimacs::parse::<NErr>(o)(data).ok().map(|x| x.1);
        let n = oxidd_parser::nnf::parse::<NErr>(o)(data).ok().map(|x| x.1);
        [a, d, n]
    }));
    r.map_err(|e| format!("parser-panic: {}", panic_msg(&e)))
}

pub const SEEDS: &[&[u8]] = &[
    b"aag 3 2 0 1 1\n2\n4\n6\n6 2 4\ni0 x\ni1 y\no0 out\nc\ncomment\n",
    b"aag 7 2 1 2 4\n2\n4\n6 8 1\n6\n7\n8 4 10\n10 13 15\n12 2 6\n14 3 7\n",
    b"aag 1 0 1 2 0\n2 3\n2\n3\n",
    b"aag 0 0 0 1 0\n0\n",
    b"aig 3 2 0 1 1\n6\n\x02\x02",
    b"aig 5 2 0 2 3\n10\n6\n\x02\x02\x03\x02\x01\x02\x07\x03",
    b"aag 5 1 1 0 3 2 1 1 1\n2\n4 10 0\n6\n8\n6\n1\n8\n2\n3\n6 2 4\n8 2 5\n10 6 9\nb0 bad\nj0 just\n",
    b"p cnf 3 2\n1 -2 0\n2 3 -1 0\n",
    b"c vo 1 2 3\nc co [[0], [1]]\np cnf 3 2\n1 -2 0\n2 3 -1 0\n",
    b"p sat 3\n(*(+(1 -2) +(2 3)))\n",
    b"p sate 3\n*(=(1 2) 3)\n",
    b"p satx 3\nxor(1 2 3)\n",
    b"p satex 4\n+(*(1 2) =(3 xor(1 4)))\n",
    b"nnf 15 17 4\nL -3\nL -2\nL 1\nA 3 2 1 0\nL 3\nO 3 2 4 3\nL -4\nA 2 6 5\nL 4\nA 2 2 8\nL 2\nA 2 1 10\nL -1\nA 2 12 4\nO 1 2 13 11\nA 2 14 9\nO 4 2 15 7\n",
    b"c o 1 2 3 4\nnnf 1 0 4\nL 1\n",
    b"c vo [[1, 3], 2]\nc 1 a\nc 2 b\np cnf 3 2\n1 -2 0\n2 3 -1 0\n",
    b"c vo [2, [1]]\nnnf 4 3 2\nL 1\nL -2\nA 2 0 1\nO 0 2 2 0\n",
    b"c vo [1]\np cnf 1 1\n1 0\n",
];

#[derive(Clone, Debug)]
enum Mut {
    Flip(u16, u8),
    Insert(u16, Vec<u8>),
    Delete(u16, u8),
    Truncate(u16),
    ReplaceNumber(u16, u64),
    Dup(u16, u16),
}

fn mutate(data: &[u8], ms: &[Mut]) -> Vec<u8> {
    let mut d = data.to_vec();
    for m in ms {
        let len = d.len().max(1);
        match m {
            Mut::Flip(p, b) => {
                if !d.is_empty() {
                    let i = ((*p as usize * len) >> 16).min(d.len() - 1);
                    d[i] ^= 1 << (b % 8);
                }
            }
            Mut::Insert(p, bytes) => {
                let i = ((*p as usize * (d.len() + 1)) >> 16).min(d.len());
                for (k, b) in bytes.iter().enumerate() {
                    d.insert(i + k, *b);
                }
            }
            Mut::Delete(p, n) => {
                if !d.is_empty() {
                    let i = ((*p as usize * len) >> 16).min(d.len() - 1);
                    let e = (i + *n as usize % 6 + 1).min(d.len());
                    d.drain(i..e);
                }
            }
            Mut::Truncate(p) => {
                let i = (*p as usize * (d.len() + 1)) >> 16;
                d.truncate(i);
            }
            Mut::ReplaceNumber(p, v) => {
                // replace the k-th decimal number
                let mut spans = vec![];
                let mut i = 0;
                while i < d.len() {
                    if d[i].is_ascii_digit() {
                        let s = i;
                        while i < d.len() && d[i].is_ascii_digit() {
                            i += 1;
                        }
                        spans.push((s, i));
                    } else {
                        i += 1;
                    }
                }
                if !spans.is_empty() {
                    let (s, e) = spans[((*p as usize) * spans.len()) >> 16];
                    let new = v.to_string().into_bytes();
                    d.splice(s..e, new);
                }
            }
            Mut::Dup(a, b) => {
                if !d.is_empty() {
                    let i = ((*a as usize * len) >> 16).min(d.len() - 1);
                    let e = (i + (*b as usize % 24) + 1).min(d.len());
                    let chunk = d[i..e].to_vec();
                    d.splice(e..e, chunk);
                }
            }
        }
    }
    d
}

fn mut_strategy() -> impl Strategy<Value = Mut> {
    let interesting = prop_oneof![Just(0u64), Just(1), Just(2), Just(u32::MAX as u64), Just(u64::MAX), Just(u64::MAX / 2), Just(1 << 40), 0u64..64, any::<u64>()];
    prop_oneof![
        4 => (any::<u16>(), any::<u8>()).prop_map(|(p, b)| Mut::Flip(p, b)),
        3 => (any::<u16>(), proptest::collection::vec(prop_oneof![Just(b' '), Just(b'\n'), Just(b'0'), Just(b'-'), Just(b'('), Just(b')'), Just(b'*'), any::<u8>()], 1..6)).prop_map(|(p, b)| Mut::Insert(p, b)),
        3 => (any::<u16>(), any::<u8>()).prop_map(|(p, n)| Mut::Delete(p, n)),
        2 => any::<u16>().prop_map(Mut::Truncate),
        5 => (any::<u16>(), interesting).prop_map(|(p, v)| Mut::ReplaceNumber(p, v)),
        1 => (any::<u16>(), any::<u16>()).prop_map(|(a, b)| Mut::Dup(a, b)),
    ]
}

/// runs parser inputs in a forked child with an address-space limit, so that an
/// attacker-sized allocation shows up as a crash of that child instead of exhausting the host
fn parser_batch(inputs: &[Vec<u8>], optsel: u8) -> Vec<Result<u8, String>> {
    let out = isolated(120, |w| {
        limit_address_space(3 << 30);
        let o = opts(optsel & 1 == 1, optsel & 2 == 2, optsel & 4 == 0);
        for (i, d) in inputs.iter().enumerate() {
            progress(&json!({"sig": "C18/parser/crash", "input_hex": hex(d), "options": optsel}).to_string());
            let r = parse_all(d, &o);
            let _ = writeln!(w, "{}", json!({"i": i, "ok": r.as_ref().ok().map(|p| p.iter().filter(|x| x.is_some()).count()), "err": r.err()}));
        }
    });
    let mut res: Vec<Result<u8, String>> = vec![];
    for l in &out.lines {
        if let Ok(v) = serde_json::from_str::<serde_json::Value>(l) {
            if v.get("i").is_some() {
                res.push(match v["err"].as_str() {
                    Some(e) => Err(e.to_string()),
                    None => Ok(v["ok"].as_u64().unwrap_or(0) as u8),
                });
            }
        }
    }
    if res.len() < inputs.len() {
        res.push(Err(if out.end == End::Timeout { "timeout: parser did not return within the watchdog".to_string() } else { format!("parser-abort: child ended {:?} (abort/OOM) on input {}", out.end, hex(&inputs[res.len().min(inputs.len() - 1)])) }));
    }
    res
}

pub const HUGE: u64 = 1 << 24;
/// input class of the known finding "header-sized-allocation": the input contains a decimal
/// number in [2^24, 2^64) (a representable element count far beyond the input size; counts are
/// declared in the header and, for AIGER justice properties, in the body)
pub fn huge_count(d: &[u8]) -> bool {
    huge_count_at(d, HUGE)
}
/// same with another lower bound (the fuzz targets run under libFuzzer's 2 GB malloc limit and
/// therefore exclude declared counts from 2^22 on)
pub fn huge_count_at(d: &[u8], limit: u64) -> bool {
    let head: Vec<u8> = d.to_vec();
    let mut cur: u128 = 0;
    let mut in_num = false;
    for &b in head.iter().chain(std::iter::once(&b' ')) {
        if b.is_ascii_digit() {
            cur = (cur * 10 + (b - b'0') as u128).min(u128::MAX / 16);
            in_num = true;
        } else {
            if in_num && cur >= limit as u128 && cur <= u64::MAX as u128 {
                return true;
            }
            cur = 0;
            in_num = false;
        }
    }
    false
}

pub fn hex(d: &[u8]) -> String {
    d.iter().map(|b| format!("{b:02x}")).collect()
}
pub fn unhex(s: &str) -> Vec<u8> {
    (0..s.len() / 2).map(|i| u8::from_str_radix(&s[2 * i..2 * i + 2], 16).unwrap_or(0)).collect()
}

fn parser_job(seed: u64, cases: u32, rep: &mut Report) {
    let strat = (0usize..SEEDS.len() + 2, proptest::collection::vec(mut_strategy(), 0..5), proptest::collection::vec(any::<u8>(), 0..60), 0u8..8);
    let mut r = crate::pt::runner(seed, cases);
    let mut batch: Vec<(Vec<u8>, u8)> = vec![];
    let mut survivors = 0u64;
    let mut n = 0u64;
    let exclude_huge = known("C18", "header-sized-allocation");
    let flush = |batch: &mut Vec<(Vec<u8>, u8)>, rep: &mut Report, survivors: &mut u64| {
        if batch.is_empty() {
            return;
        }
        let optsel = batch[0].1;
        let inputs: Vec<Vec<u8>> = batch.iter().map(|b| b.0.clone()).collect();
        let rs = parser_batch(&inputs, optsel);
        for (i, res) in rs.iter().enumerate() {
            rep.evaluations += 3;
            match res {
                Ok(k) => {
                    if *k > 0 {
                        *survivors += 1;
                    }
                }
                Err(m) if m.starts_with("timeout") => rep.inconclusive.push(m.clone()),
                Err(m) => {
                    let d = &inputs[i.min(inputs.len() - 1)];
                    let sig = if huge_count(d) { "header-sized-allocation".to_string() } else { format!("C18/parser/{}", crate::hrun::category(m)) };
                    rep.viol(sig, m.clone(), json!({"input_hex": hex(d), "input_lossy": String::from_utf8_lossy(d), "options": optsel}));
                }
            }
        }
        batch.clear();
    };
    use proptest::strategy::ValueTree;
    for _ in 0..cases {
        let (si, ms, raw, optsel) = strat.new_tree(&mut r).unwrap().current();
        let mut data = if si < SEEDS.len() { mutate(SEEDS[si], &ms) } else { raw };
        n += 1;
        if exclude_huge && huge_count(&data) {
            // known finding: allocation sized by header counts. Exclude the input class by
            // construction (re-mutate with bounded numbers) so that the search continues.
            rep.excluded_by_known_finding += 1;
            let ms2: Vec<Mut> = ms.iter().map(|m| match m { Mut::ReplaceNumber(p, v) => Mut::ReplaceNumber(*p, v % (1 << 20)), m => m.clone() }).collect();
            data = if si < SEEDS.len() { mutate(SEEDS[si], &ms2) } else { vec![] };
            if huge_count(&data) {
                continue;
            }
        }
        if !batch.is_empty() && batch[0].1 != optsel || batch.len() >= 400 {
            flush(&mut batch, rep, &mut survivors);
        }
        if rep.samples.len() < 2 && !ms.is_empty() && si < SEEDS.len() {
            rep.sample(json!({"suite": "parser mutation", "seed_file": String::from_utf8_lossy(SEEDS[si]), "mutations": format!("{ms:?}"), "input": String::from_utf8_lossy(&data)}));
        }
        batch.push((data, optsel));
        if rep.viols.len() > 5 {
            break;
        }
    }
    flush(&mut batch, rep, &mut survivors);
    rep.nontrivial += survivors;
    rep.class_n("parser.inputs", n);
    rep.class_n("parser.inputs_accepted_by_some_parser", survivors);
}

/// every truncation point of every seed file
fn truncation_job(rep: &mut Report) {
    for optsel in [0u8, 3] {
        let mut inputs = vec![];
        for s in SEEDS {
            for k in 0..=s.len() {
                inputs.push(s[..k].to_vec());
            }
        }
        let rs = parser_batch(&inputs, optsel);
        for (i, res) in rs.iter().enumerate() {
            rep.evaluations += 3;
            if let Err(m) = res {
                if m.starts_with("timeout") {
                    rep.inconclusive.push(m.clone());
                } else {
                    let d = &inputs[i.min(inputs.len() - 1)];
                    rep.viol(format!("C18/parser/{}", crate::hrun::category(m)), m.clone(), json!({"input_hex": hex(d), "options": optsel}));
                }
            }
        }
        rep.class_n("parser.truncations", inputs.len() as u64);
        rep.nontrivial += inputs.len() as u64 / 2;
    }
}

/// generated valid AIGER problems written as ASCII and as binary must parse to the same Problem
#[derive(Clone, Debug)]
struct Aig {
    inputs: usize,
    latches: Vec<(u32, u8)>, // next-state selector, init 0/1/2(=self)
    ands: Vec<(u32, u32)>,   // operand selectors
    outputs: Vec<u32>,
    bad: Vec<u32>,
}

fn aig_strategy() -> impl Strategy<Value = Aig> {
    (0usize..4, proptest::collection::vec((any::<u32>(), 0u8..3), 0..3), proptest::collection::vec((any::<u32>(), any::<u32>()), 0..8), proptest::collection::vec(any::<u32>(), 0..3), proptest::collection::vec(any::<u32>(), 0..2))
        .prop_map(|(inputs, latches, ands, outputs, bad)| Aig { inputs, latches, ands, outputs, bad })
}

fn write_aig(a: &Aig) -> (Vec<u8>, Vec<u8>) {
    let (i, l, n) = (a.inputs, a.latches.len(), a.ands.len());
    let m = i + l + n;
    let lit_any = |s: u32| -> usize { (s as usize) % (2 * m + 2) };
    // and gate k (variable i+l+1+k) may only use smaller literals, rhs0 >= rhs1 (binary format)
    let mut ands: Vec<(usize, usize, usize)> = vec![];
    for (k, (x, y)) in a.ands.iter().enumerate() {
        let lhs = 2 * (i + l + 1 + k);
        let (mut r0, mut r1) = ((*x as usize) % lhs, (*y as usize) % lhs);
        if r0 < r1 {
            std::mem::swap(&mut r0, &mut r1);
        }
        ands.push((lhs, r0, r1));
    }
    let latch_lines: Vec<(usize, usize, String)> = a.latches.iter().enumerate().map(|(k, (s, init))| {
        let lit = 2 * (i + 1 + k);
        let next = lit_any(*s);
        let init_s = match init {
            0 => String::new(),
            1 => " 1".to_string(),
            _ => format!(" {lit}"),
        };
        (lit, next, init_s)
    }).collect();
    let header = |fmt: &str| format!("{fmt} {m} {i} {l} {} {n}{}\n", a.outputs.len(), if a.bad.is_empty() { String::new() } else { format!(" {}", a.bad.len()) });
    let mut asc = header("aag").into_bytes();
    for k in 0..i {
        asc.extend(format!("{}\n", 2 * (k + 1)).bytes());
    }
    for (lit, next, init) in &latch_lines {
        asc.extend(format!("{lit} {next}{init}\n").bytes());
    }
    for o in &a.outputs {
        asc.extend(format!("{}\n", lit_any(*o)).bytes());
    }
    for b in &a.bad {
        asc.extend(format!("{}\n", lit_any(*b)).bytes());
    }
    for (lhs, r0, r1) in &ands {
        asc.extend(format!("{lhs} {r0} {r1}\n").bytes());
    }
    let mut bin = header("aig").into_bytes();
    for (_, next, init) in &latch_lines {
        bin.extend(format!("{next}{init}\n").bytes());
    }
    for o in &a.outputs {
        bin.extend(format!("{}\n", lit_any(*o)).bytes());
    }
    for b in &a.bad {
        bin.extend(format!("{}\n", lit_any(*b)).bytes());
    }
    let enc = |mut x: usize, out: &mut Vec<u8>| {
        while x & !0x7f != 0 {
            out.push(((x & 0x7f) | 0x80) as u8);
            x >>= 7;
        }
        out.push(x as u8);
    };
    for (lhs, r0, r1) in &ands {
        enc(lhs - r0, &mut bin);
        enc(r0 - r1, &mut bin);
    }
    (asc, bin)
}

fn aiger_pair_job(seed: u64, cases: u32, rep: &mut Report) {
    let strat = aig_strategy();
    let o = opts(false, false, true);
    let mut both_ok = 0u64;
    let out = crate::pt::run2(
        seed,
        cases,
        &strat,
        |_| {},
        |_, r: &Result<bool, String>| {
            if let Ok(true) = r {
                both_ok += 1;
            }
        },
        |a| {
            let (asc, bin) = write_aig(a);
            progress(&json!({"sig": "C18/aiger-pair/crash", "aag": String::from_utf8_lossy(&asc)}).to_string());
            let pa = std::panic::catch_unwind(|| oxidd_parser::aiger::parse::<NErr>(&o)(&asc).map(|x| x.1).map_err(|e| format!("{e:?}"))).map_err(|e| format!("parser-panic: {}", panic_msg(&e)))?;
            let pb = std::panic::catch_unwind(|| oxidd_parser::aiger::parse::<NErr>(&o)(&bin).map(|x| x.1).map_err(|e| format!("{e:?}"))).map_err(|e| format!("parser-panic: {}", panic_msg(&e)))?;
            match (pa, pb) {
                (Ok(x), Ok(y)) => {
                    if x != y {
                        return Err(format!("aiger-ascii-binary-differ: the ASCII file\n{}\nand its binary encoding ({}) parse to different problems:\n{x:?}\nvs\n{y:?}", String::from_utf8_lossy(&asc), hex(&bin)));
                    }
                    Ok(true)
                }
                (Err(_), Err(_)) => Ok(false), // e.g. cyclic latch definitions are fine to reject in both
                (Ok(_), Err(e)) => Err(format!("aiger-ascii-binary-differ: ASCII accepted, binary rejected ({e}) for\n{}", String::from_utf8_lossy(&asc))),
                (Err(e), Ok(_)) => Err(format!("aiger-ascii-binary-differ: binary accepted, ASCII rejected ({e}) for\n{}", String::from_utf8_lossy(&asc))),
            }
        },
    );
    rep.evaluations += out.cases * 2;
    rep.nontrivial += both_ok;
    rep.class_n("aiger.generated_pairs", out.cases);
    rep.class_n("aiger.generated_pairs_both_accepted", both_ok);
    if let Some((a, msg)) = out.failure {
        let (asc, bin) = write_aig(&a);
        rep.viol(format!("C18/{}", crate::hrun::category(&msg)), msg, json!({"aag": String::from_utf8_lossy(&asc), "aig_hex": hex(&bin)}));
    }
}

pub fn run(cfg: &Cfg) -> i32 {
    let start = Instant::now();
    if let Some(path) = cfg.replay.as_ref().filter(|p| replay_case_is(p, |c| c["circuit"].is_object() || c["input_hex"].is_string() || c["aag"].is_string())) {
        let v: serde_json::Value = serde_json::from_str(&std::fs::read_to_string(path).expect("replay file")).expect("json");
        let case = &v["case"];
        let r: Result<(), String> = if let Some(c) = case.get("circuit") {
            let spec: CSpec = serde_json::from_value(c.clone()).expect("circuit");
            check_circuit(&spec).map(|_| ())
        } else if let Some(h) = case.get("input_hex").and_then(|h| h.as_str()) {
            parser_batch(&[unhex(h)], case["options"].as_u64().unwrap_or(0) as u8).pop().unwrap().map(|_| ())
        } else if let Some(a) = case.get("aag").and_then(|h| h.as_str()) {
            let o = opts(false, false, true);
            let bin = unhex(case["aig_hex"].as_str().unwrap_or(""));
            let pa = oxidd_parser::aiger::parse::<NErr>(&o)(a.as_bytes()).map(|x| x.1).ok();
            let pb = oxidd_parser::aiger::parse::<NErr>(&o)(&bin).map(|x| x.1).ok();
            if pa == pb { Ok(()) } else { Err("aiger-ascii-binary-differ".into()) }
        } else {
            Err("replay: unknown case format".into())
        };
        return match r {
            Ok(_) => {
                println!("replay: case passes");
                0
            }
            Err(m) => {
                let d = unhex(case["input_hex"].as_str().unwrap_or(""));
                if known("C18", "header-sized-allocation") && huge_count(&d[..d.len().min(400)]) {
                    println!("KNOWN-FINDING: property=C18 header-sized-allocation: {m}");
                    0
                } else {
                    println!("VIOLATION property=C18 replay={path}\n  what: {m}");
                    1
                }
            }
        };
    }
    let mut jobs: Vec<Box<dyn FnMut(&mut dyn Write) + '_>> = vec![];
    let mut names = vec![];
    let shards = 6;
    for sh in 0..shards {
        names.push(format!("simplify/exhaustive/{sh}"));
        jobs.push(Box::new(move |w: &mut dyn Write| {
            let mut rep = Report::default();
            // 1 input, 1 gate, up to 3 literals incl. unknown inputs and self reference
            exhaustive(1, 1, 3, true, sh, shards, &mut rep);
            // 2 inputs, 2 gates, up to 2 literals (all references incl. cycles, unknown inputs)
            exhaustive(2, 2, 2, true, sh, shards, &mut rep);
            // 1 input, 3 gates, up to 2 literals, no unknown inputs
            exhaustive(1, 3, if cfg.thorough { 2 } else { 1 }, false, sh, shards, &mut rep);
            if cfg.thorough {
                exhaustive(3, 2, 2, false, sh, shards, &mut rep);
            }
            if rep.samples.is_empty() {
                rep.sample(json!({"suite": "simplify exhaustive", "example": CSpec { inputs: 2, gates: vec![(2, vec![L::In(true, 0), L::T]), (0, vec![L::Gate(true, 0), L::In(false, 1)])], roots: vec![L::Gate(false, 1)] }}));
            }
            rep.emit(w);
        }));
    }
    for sh in 0..cfg.t(3, 6) {
        let seed = mix(cfg.seed ^ (0xc18_000 + sh as u64));
        let cases = cfg.t(3000, 40000);
        names.push(format!("simplify/random/{sh}"));
        jobs.push(Box::new(move |w: &mut dyn Write| {
            let mut rep = Report::default();
            random_job(seed, cases, &mut rep);
            rep.emit(w);
        }));
    }
    for sh in 0..cfg.t(4, 8) {
        let seed = mix(cfg.seed ^ (0xc18_500 + sh as u64));
        let cases = cfg.t(6000, 100000);
        names.push(format!("parser/mutation/{sh}"));
        jobs.push(Box::new(move |w: &mut dyn Write| {
            let mut rep = Report::default();
            parser_job(seed, cases, &mut rep);
            rep.emit(w);
        }));
    }
    names.push("parser/known-finding-probe".into());
    jobs.push(Box::new(|w: &mut dyn Write| {
        let mut rep = Report::default();
        let probes: Vec<Vec<u8>> = vec![b"p sat 1099511627776\n(*(+(1 -2) +(2 3)))\n".to_vec(), b"p sate 994321213784586715\nP1\n*(=(1 2) 3)\n".to_vec(), b"aag 99999999999999 0 0 0 0\n".to_vec()];
        for (i, p) in probes.iter().enumerate() {
            let r = parser_batch(std::slice::from_ref(p), if i == 0 { 7 } else { 6 }).pop().unwrap();
            rep.evaluations += 1;
            if let Err(m) = r {
                if !m.starts_with("timeout") {
                    rep.viol("header-sized-allocation", format!("{m} [declared count far beyond the input size]"), json!({"input_lossy": String::from_utf8_lossy(p), "input_hex": hex(p), "options": if i == 0 { 7 } else { 6 }}));
                }
            }
        }
        rep.emit(w);
    }));
    names.push("parser/truncation".into());
    jobs.push(Box::new(|w: &mut dyn Write| {
        let mut rep = Report::default();
        truncation_job(&mut rep);
        rep.emit(w);
    }));
    for sh in 0..2 {
        let seed = mix(cfg.seed ^ (0xc18_900 + sh as u64));
        let cases = cfg.t(4000, 50000);
        names.push(format!("aiger-pair/{sh}"));
        jobs.push(Box::new(move |w: &mut dyn Write| {
            let mut rep = Report::default();
            aiger_pair_job(seed, cases, &mut rep);
            rep.emit(w);
        }));
    }
    crate::fzrun::add_jobs(cfg, "C18", &mut jobs, &mut names);
    let outs = run_jobs(&mut jobs, cfg.par, cfg.t(900, 7200));
    drop(jobs);
    let mut total = Report::default();
    merge_jobs(&mut total, outs, &names);
    conclude(
        cfg,
        &total,
        Meta {
            level: "exploration",
            rule: "Circuit::simplify: exhaustive circuits (1 input/1 gate/<=3 literals; 2 inputs/2 gates/<=2 literals; 1 input/3 gates) over gate kinds {and,or,xor} and literals {F, T, +-inputs, +-gates incl. self/forward references (cycles), the first non-existent input number, the one after it, UNDEF}, with 'all gates + constant' and 'last gate' as root sets; random circuits up to 8 inputs and 30 gates. Oracle: direct evaluation over all input assignments with cycle detection. simplify must return Err(l) only if l is a reachable cycle gate or a reachable unknown input, must report every reachable cycle, may return Ok in the presence of unknown inputs only if no reachable gate's value depends on them (evaluated under all values of the unknown inputs) and the new circuit does not mention them; on Ok every reachable gate's image is equivalent on all assignments, the five normal-form conditions hold for every new gate, the new circuit is topologically sorted and unreachable gates map to UNDEF. Parsers (DIMACS cnf/sat, AIGER ascii/binary, NNF): seeded structured mutations (bit flips, inserts, deletions, truncation, number replacement by boundary values, duplication) of 15 valid files + raw bytes, and every truncation point of every seed file, under 8 option combinations, in forked children with a 3 GiB address-space limit: any panic, abort or OOM is a violation; generated valid AIGER problems written in ASCII and binary form must parse to equal Problems. Non-trivial = circuit where a gate collapses to a constant/literal and is used by another gate or a gate has duplicate/complementary inputs; mutated input accepted by some parser; AIGER pair accepted in both encodings. COVERAGE-GUIDED FUZZING: the libFuzzer targets of this property (harness/fuzz, entry points and decoders in fz.rs, the same oracle as above, built with AddressSanitizer, debug assertions and overflow checks) - quick tier: every committed seed and regression input is replayed through the in-process entry point; thorough tier: 3 libFuzzer campaigns per target with -runs=N -seed=f(VERIF_SEED) on fresh corpora initialised from the seeds (evaluations = executions, non-trivial = inputs kept for new coverage).",
            assumptions: vec!["gate references are always < number of gates (references to non-existent gates are outside the documented domain)".into(), "release profile; the libFuzzer targets (debug assertions on) complement this for the parsers".into()],
            extra: json!({}),
        },
        start,
    )
}
