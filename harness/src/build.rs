//! Helpers to set up managers and construct functions from tables.

use std::collections::HashMap;

use oxidd::{BooleanFunction, Manager, ManagerRef};

use crate::kinds::{BoolKind, MRef};
use crate::model::TT;

/// New manager with n variables in the given level order (order[level] = var).
/// The order is established on the still empty manager.
pub fn mk_manager<K: BoolKind>(n: u32, order: &[u32], inner: usize, cache: usize, threads: u32) -> MRef<K> {
    let mr = K::new_manager(inner, cache, threads);
    mr.with_manager_exclusive(|m| {
        m.add_vars(n);
    });
    if !order.is_empty() && !order.iter().enumerate().all(|(i, &v)| i as u32 == v) {
        K::set_var_order(&mr, order, true);
    }
    if !order.is_empty() {
        assert_eq!(K::order(&mr), order, "could not establish order on an empty manager");
    }
    mr
}

pub fn vars<K: BoolKind>(mr: &MRef<K>, n: u32) -> Vec<K::F> {
    mr.with_manager_shared(|m| (0..n).map(|v| K::F::var(m, v).expect("oom var")).collect())
}

/// Build `t` by sum of minterms (route A)
pub fn from_minterms<K: BoolKind>(mr: &MRef<K>, vars: &[K::F], t: &TT) -> K::F {
    let (ff, tt) = mr.with_manager_shared(|m| (K::F::f(m), K::F::t(m)));
    let mut acc = ff;
    for a in 0..t.size() {
        if !t.get(a) {
            continue;
        }
        let mut cube = tt.clone();
        for v in 0..t.n {
            let lit = if (a >> v) & 1 == 1 { vars[v as usize].clone() } else { vars[v as usize].not().expect("oom") };
            cube = cube.and(&lit).expect("oom");
        }
        acc = acc.or(&cube).expect("oom");
    }
    acc
}

/// Build `t` by recursive Shannon expansion with ite, expanding variables in
/// *descending index* order (route B; unrelated to the level order)
pub fn from_shannon<K: BoolKind>(mr: &MRef<K>, vars: &[K::F], t: &TT, memo: &mut HashMap<TT, K::F>) -> K::F {
    fn go<K: BoolKind>(mr: &MRef<K>, vars: &[K::F], t: TT, v: i32, memo: &mut HashMap<TT, K::F>) -> K::F {
        if t.is_zero() {
            return mr.with_manager_shared(|m| K::F::f(m));
        }
        if t.is_one() {
            return mr.with_manager_shared(|m| K::F::t(m));
        }
        if let Some(f) = memo.get(&t) {
            return f.clone();
        }
        let mut v = v;
        while !t.depends(v as u32) {
            v -= 1;
        }
        let hi = go::<K>(mr, vars, t.cof(v as u32, true), v - 1, memo);
        let lo = go::<K>(mr, vars, t.cof(v as u32, false), v - 1, memo);
        let r = vars[v as usize].ite(&hi, &lo).expect("oom");
        memo.insert(t, r.clone());
        r
    }
    go::<K>(mr, vars, *t, t.n as i32 - 1, memo)
}

pub fn assignment(n: u32, a: usize) -> Vec<(u32, bool)> {
    (0..n).map(|v| (v, (a >> v) & 1 == 1)).collect()
}
