//! C01 — canonicity: equal handles iff equal functions, after any history.

use std::collections::HashMap;
use std::io::Write;
use std::time::Instant;

use oxidd::BooleanFunction;
use serde_json::json;

use crate::build::*;
use crate::engine::*;
use crate::hist::*;
use crate::hrun::*;
use crate::kinds::*;
use crate::model::*;

/// n=3 exhaustive: every function built by two unrelated routes with gc, slot
/// churn, drops and a reorder round trip in between.
fn exh3<K: BoolKind>(order: &[u32], threads: u32, rep: &mut Report) {
    let ctx = json!({"kind": K::NAME, "order": order, "threads": threads});
    progress(&json!({"sig": format!("C01/{}/exh3/crash", K::NAME), "ctx": ctx}).to_string());
    let mr = mk_manager::<K>(3, order, 1 << 12, 1 << 8, threads);
    let vs = vars::<K>(&mr, 3);
    // route B for all functions
    let mut memo = HashMap::new();
    let mut fb: Vec<Option<K::F>> = (0..256u64).map(|t| Some(from_shannon::<K>(&mr, &vs, &TT::from_u64(3, t), &mut memo))).collect();
    drop(memo);
    // drop every third function, collect, churn, reorder there and back
    for t in (0..256).step_by(3) {
        fb[t] = None;
    }
    K::gc(&mr);
    {
        let mut acc = vs[0].clone();
        for i in 0..40 {
            acc = if i % 2 == 0 { acc.xor(&vs[i % 3]).unwrap() } else { acc.nand(&vs[(i + 1) % 3]).unwrap() };
        }
    }
    let rev: Vec<u32> = order.iter().rev().copied().collect();
    progress(&json!({"sig": format!("C01/{}/exh3/crash-reorder", K::NAME), "ctx": ctx}).to_string());
    if K::KIND == BKind::Zbdd && known("C01", "zbdd-reorder-nonempty") {
        rep.excluded_by_known_finding += 1;
    } else {
        K::set_var_order(&mr, &rev, true);
        K::set_var_order(&mr, order, threads == 1);
    }
    K::gc(&mr);
    progress(&json!({"sig": format!("C01/{}/exh3/crash", K::NAME), "ctx": ctx}).to_string());
    // route A (minterms), and for every third function via negated complement
    let mut fa: Vec<K::F> = vec![];
    for t in 0..256u64 {
        let tt = TT::from_u64(3, t);
        let f = if t % 3 == 0 { from_minterms::<K>(&mr, &vs, &tt.not()).not().unwrap() } else { from_minterms::<K>(&mr, &vs, &tt) };
        let got = K::table(&f, 3);
        rep.evaluations += 1;
        if got != tt {
            rep.viol(format!("C01/{}/exh3/result-table", K::NAME), format!("route A for {tt:?} interprets as {got:?}"), json!({"ctx": ctx, "table": t}));
            return;
        }
        fa.push(f);
    }
    // pairwise: handles equal iff tables equal
    let mut all: Vec<(&K::F, usize, bool)> = vec![];
    for t in 0..256 {
        all.push((&fa[t], t, false));
        if let Some(f) = &fb[t] {
            let got = K::table(f, 3);
            if got != TT::from_u64(3, t as u64) {
                rep.viol(format!("C01/{}/exh3/preserve", K::NAME), format!("route B handle for {t:02x} interprets as {got:?} after gc/reorder round trip"), json!({"ctx": ctx, "table": t}));
                return;
            }
            all.push((f, t, true));
        }
    }
    for i in 0..all.len() {
        for j in i + 1..all.len() {
            rep.evaluations += 1;
            let eqh = all[i].0 == all[j].0;
            let eqt = all[i].1 == all[j].1;
            if eqh != eqt {
                let what = if eqt { "noncanonical" } else { "spurious-eq" };
                rep.viol(format!("C01/{}/exh3/{what}", K::NAME), format!("{what}: tables {:02x} / {:02x}: handle equality = {eqh}", all[i].1, all[j].1), json!({"ctx": ctx, "a": all[i].1, "b": all[j].1}));
            }
            if eqt {
                rep.nontrivial += 1; // same function via two routes separated by gc/churn/reorder
            } else if i % 16 == 0 {
                // different tables sharing sub-tables are plenty in this set
            }
            let ord = all[i].0.cmp(all[j].0);
            if (ord == std::cmp::Ordering::Equal) != eqh {
                rep.viol(format!("C01/{}/exh3/ord", K::NAME), format!("cmp = {ord:?} but == is {eqh}"), json!({"ctx": ctx, "a": all[i].1, "b": all[j].1}));
            }
        }
    }
    rep.class_n(&format!("{}.exh3_pairs", K::NAME), (all.len() * (all.len() - 1) / 2) as u64);
    if rep.samples.is_empty() {
        rep.sample(json!({"ctx": ctx, "suite": "256 functions: route B (Shannon/ite) -> drop a third, gc, churn, reorder round trip, gc -> route A (minterms / negated complement); all pairs of handles compared"}));
    }
}

pub fn nontrivial(s: &CaseStats) -> bool {
    s.equal_pairs_after_event > 0 || s.rebuilds_after_event > 0 || s.repeats_after_event > 0
}

pub fn run(cfg: &Cfg) -> i32 {
    let start = Instant::now();
    let checks = Checks { canon: true, structure: false, rc: false, node_count: true };
    if let Some(path) = cfg.replay.as_ref().filter(|p| replay_case_is(p, |c| is_bool_kind(c) && c["ops"].is_array())) {
        return replay(cfg, path, checks, start);
    }
    let perms = permutations(3);
    let mut jobs: Vec<Box<dyn FnMut(&mut dyn Write) + '_>> = vec![];
    let mut names = vec![];
    macro_rules! add_kind {
        ($K:ty, $salt:expr) => {
            for order in &perms {
                for threads in [1u32, 3] {
                    let order = order.clone();
                    names.push(format!("exh3/{}/{:?}/t{}", <$K>::NAME, order, threads));
                    jobs.push(Box::new(move |w: &mut dyn Write| {
                        let mut rep = Report::default();
                        exh3::<$K>(&order, threads, &mut rep);
                        rep.emit(w);
                    }));
                }
            }
            let shards = cfg.t(4, 12);
            for sh in 0..shards {
                let job = HistJob {
                    prop: "C01",
                    seed: mix(cfg.seed ^ (0xc01 * 1000 + $salt * 100 + sh as u64)),
                    cases: cfg.t(1500, 20000),
                    weights: Weights { rebuild: 10, repeat: 6, ..Weights::default() },
                    nmin: if sh % 2 == 0 { 3 } else { 4 },
                    nmax: if sh % 2 == 0 { 5 } else { 8 },
                    len: 10..60,
                    threads: vec![1, 1, 4],
                    caches: vec![1, 16, 4096],
                    checks,
                };
                names.push(format!("hist/{}/{}", <$K>::NAME, sh));
                jobs.push(Box::new(move |w: &mut dyn Write| {
                    let mut rep = Report::default();
                    hist_campaign::<$K>(&job, &mut rep, &nontrivial, &|_| Ok(()));
                    rep.emit(w);
                }));
            }
        };
    }
    add_kind!(BddK, 1);
    add_kind!(BcddK, 2);
    add_kind!(ZbddK, 3);
    crate::c01x::add_jobs(cfg, &mut jobs, &mut names);
    let outs = run_jobs(&mut jobs, cfg.par, cfg.t(900, 7200));
    drop(jobs);
    let mut total = Report::default();
    merge_jobs(&mut total, outs, &names);
    conclude(
        cfg,
        &total,
        Meta {
            level: "exploration",
            rule: "(a) exhaustive n=3: all 256 functions x 6 orders x {BDD,BCDD,ZBDD} x threads {1,3}, each built by two unrelated routes separated by drop/gc/slot churn/reorder round trip, all pairs of resulting handles compared (== iff same table, cmp and hash consistent). (b) proptest histories (apply ops, quantification, substitution, clone/drop incl. on other threads, gc, churn, add_vars, set_var_order, rebuild-by-other-route, repeat) over 3..8 variables; after every step all pairs of pooled handles are compared against their model tables. MTBDD/TDD value-table variants run in (c). Non-trivial case = history in which two handles with equal tables were obtained on different sides of a gc/reorder/add_vars event, or a rebuild/repeat happened after such an event; exh3: each equal-table pair via two routes.",
            assumptions: vec!["tables come from the harness model and are cross-checked against the independent interpreter at creation".into(), "index backend; pointer backend through C20".into()],
            extra: json!({}),
        },
        start,
    )
}

fn replay(cfg: &Cfg, path: &str, checks: Checks, start: Instant) -> i32 {
    let v: serde_json::Value = serde_json::from_str(&std::fs::read_to_string(path).expect("replay file")).expect("json");
    let case = &v["case"];
    let kind = case["kind"].as_str().unwrap_or("");
    let r = match kind {
        "bdd" => replay_case::<BddK>("C01", case, checks),
        "bcdd" => replay_case::<BcddK>("C01", case, checks),
        "zbdd" => replay_case::<ZbddK>("C01", case, checks),
        _ => Err(format!("replay: unsupported case kind {kind:?} (exhaustive suites are replayed by re-running the tier)")),
    };
    let mut rep = Report::default();
    rep.evaluations = 1;
    match r {
        Ok(_) => println!("replay: case passes"),
        Err(m) => rep.viol(v["signature"].as_str().unwrap_or("replay").to_string(), m, case.clone()),
    }
    let _ = start;
    if rep.viols.is_empty() { 0 } else {
        for x in &rep.viols {
            println!("VIOLATION property={} replay={}", cfg.prop, path);
            println!("  what: {}", x.what);
        }
        1
    }
}
