//! vrun — property checks for OxiDD (see /verif/DESIGN.md); library so that the fuzz targets in
//! /verif/fuzz can reuse the oracles. Empty unless built with the full default feature set
//! (the C20 recorder `vrun20` includes the few modules it needs by path).
#![cfg(all(feature = "index", feature = "cache", feature = "mt", feature = "mtbdd"))]
#![allow(clippy::all)]
#![allow(dead_code)]

pub mod build;
pub mod engine;
pub mod kinds;
pub mod model;
pub mod pt;
pub mod refnat;
pub mod vhist;
pub mod vkinds;
pub mod vmodel;

pub mod c01;
pub mod c01x;
pub mod c02;
pub mod c02w;
pub mod c04;
pub mod c05x;
pub mod c10;
pub mod c11;
pub mod c12;
pub mod c13;
pub mod c14;
pub mod c15;
pub mod c15x;
pub mod c16;
pub mod c17;
pub mod c18;
pub mod c19;
pub mod c20;
pub mod c07;
pub mod c07s;
pub mod c08;
pub mod c09;
pub mod c06;
pub mod c06x;
pub mod histprops;
pub mod hist;
pub mod hrun;

pub mod cli;
pub mod fz;
pub mod fzrun;
