#!/usr/bin/env python3
"""Writes seeded/MATRIX.md from seeded/*/meta.json (results recorded by bin/seeded_run)."""
import json, glob, os
rows = []
for p in sorted(glob.glob('/verif/seeded/*/meta.json')):
    m = json.load(open(p))
    name = os.path.basename(os.path.dirname(p))
    rows.append((name, m))
out = ["# Seeded breaking changes and the checks that catch them", "",
       "Every change below (except the rows marked AUTHOR-MADE) was produced by a separate agent that saw only the text of one property and a",
       "scratch worktree of OxiDD (rows whose note says \"round 2\" come from a later, smaller round whose prompts also named areas to aim at; \"round 3\" rows from a third round of sixteen changes for C02, C04, C05, C08, C09, C12, C13, C20 whose prompts named areas not yet hit and the mechanisms of round 1 to avoid). For each one I confirmed in a scratch worktree that OxiDD's own test suite",
       "still passes with the change (`cargo test --workspace`, 109 tests incl. doc tests) and that the agent's",
       "demonstration fails with the change and passes without it. `bin/seeded_run <name> <checks>` then applies",
       "`patch.diff` to /repo, runs the quick tier of the listed checks, replays every reported replay file with",
       "the change applied (must reproduce: exit 1) and again after `git checkout -- .` (must pass: exit 0).",
       "",
       "Legend: **caught** = exit 1 with a VIOLATION line; missed = exit 0. `replays a/b` = a of b replay files",
       "reproduced with the change applied (free-running schedules reproduce only with some probability).",
       "",
       "| seeded change | property | what it breaks / what it needs | suite with change | demo with / without | checks (quick tier) |",
       "|---|---|---|---|---|---|"]
caught_by_target = 0
for name, m in rows:
    c = m.get('confirmed', {})
    s = c.get('suite_with_patch', {})
    suite = f"{s.get('passed','?')} passed, {s.get('failed','?')} failed" if s else "?"
    demo = f"rc {c.get('demo_rc_with_patch','?')} / rc {c.get('demo_rc_without_patch','?')}"
    checks = []
    for k, v in sorted(m.get('checks_quick', {}).items()):
        if v.get('rc') == 1:
            rr = str(v.get('replay_rc_with_patch', '')).split()
            extra = f" (replays {rr.count('1')}/{len(rr)})" if rr else ""
            checks.append(f"**{k} caught**{extra}")
        elif v.get('rc') == 0:
            checks.append(f"{k} missed")
        else:
            checks.append(f"{k} rc={v.get('rc')}")
    if m.get('checks_quick', {}).get(m['property'], {}).get('rc') == 1:
        caught_by_target += 1
    summary = (m.get('summary', '') + ' NEEDS: ' + m.get('needs', '')).replace('|', '\\|').replace('\n', ' ')
    if len(summary) > 420:
        summary = summary[:417] + '...'
    note = (' NOTE: ' + m['note'].replace('|', '\\|')) if m.get('note') else ''
    out.append(f"| `{name}` | {m['property']} | {summary}{note} | {suite} | {demo} | {', '.join(checks)} |")
out += ["", f"{len(rows)} seeded changes; {caught_by_target} are caught by the quick tier of the check of the property they were written against.", ""]
clean = [(n, m.get('replays_on_clean_tree', [])) for n, m in rows]
bad = [(n, [x for x in r if not x.endswith(':0')]) for n, r in clean]
bad = [b for b in bad if b[1]]
out.append("Replays on the restored tree: " + ("all recorded replay files pass (exit 0)." if not bad else "NOT all pass: " + json.dumps(bad)))
open('/verif/seeded/MATRIX.md', 'w').write('\n'.join(out) + '\n')
print(f"{len(rows)} rows, {caught_by_target} caught by target check; clean-tree replay failures: {bad}")
