#!/usr/bin/env python3
# Regenerates MANIFEST.json from the table below (kept in one place so it is always valid).
import json
props=[json.loads(l) for l in open('/verif/properties.jsonl')]
claimed={
 "C01":("exploration","exhaustive 3-variable two-route construction under all orders + proptest histories (3..8 variables) with pairwise handle/table comparison after every step","PBT: stateful proptest histories + exhaustive small scope vs truth-table model (canonicity both directions)"),
 "C02":("exploration","exhaustive 3-variable operand tuples under all orders/kinds/thread+split-depth configs + proptest random operands over 4..8 variables against a bitwise truth-table oracle and an independent diagram interpreter","PBT: exhaustive small-scope enumeration + proptest random operands vs truth-table model"),
 "C03":("exploration","structural audit (ordered, reduced, duplicate-free, level bookkeeping, exact node counts vs reference canonical form) after every step of proptest histories","PBT: stateful proptest histories with invariant audit after every step"),
 "C04":("exploration","exhaustive quantification/restriction/apply-quantify/substitution over 3 variables under all orders + histories with reused/alternated substitutions (substitution objects also created on other threads)","PBT: exhaustive small scope + stateful proptest histories vs cofactor arithmetic on truth tables"),
 "C05":("exploration","reference-count audit after every step and exactness of every gc() in proptest histories biased to clone/drop/gc (incl. DDDMP export/import steps); capacity probes (stores < 100 slots, MTBDD terminals, chunked stores >= 64Ki slots: differential fill against a fresh manager); automatic collections","PBT: stateful proptest histories with reference-count model + seeded capacity/terminal/chunk probes"),
 "C06":("exploration","each proptest history replayed under cache capacities 1/2/16/65536 and with warm-up noise; digests equal, repeated ops give identical handles","PBT: differential over cache configurations + model-based histories"),
 "C09":("exploration","exhaustive ZBDD family operations over 3 variables under all orders + random families with add_vars","PBT: exhaustive small scope + proptest vs set arithmetic on bit masks"),
 "C13":("exploration","exhaustive choice vectors x literal sets over 3 variables, random over 4..8, against a table-level simulation of the canonical walk; chi-square for uniform picking","PBT: exhaustive small scope + proptest vs walk oracle; statistical test with fixed seeds"),
}
import os
extra=json.load(open('/verif/bin/claims_extra.json')) if os.path.exists('/verif/bin/claims_extra.json') else {}
for k,v in extra.items(): claimed[k]=tuple(v)
checks=[]
for p in props:
    i=p["id"]
    if i in claimed:
        lvl,text,tech=claimed[i]
        if i in ("C05","C12","C15","C17","C18"):
            tech+="; coverage-guided fuzzing (libFuzzer via cargo-fuzz, structured decoding, oracle inside the target): saved-corpus replay in the quick tier, campaigns in the thorough tier"
        if i not in ("C19","C20"):
            tech+="; every run is followed by a second pass of the quick tier with OxiDD built with debug assertions and overflow checks"
        checks.append({"property_id":i,"quick_cmd":f"bin/check {i} quick","thorough_cmd":f"bin/check {i} thorough","evidence_file":f"evidence/{i}.json","replay_cmd_template":f"bin/check {i} quick --replay {{path}}","engine":"vrun",
          "level_claimed":{"category":lvl,"text":text,"design_ref":f"DESIGN.md §3 {i}"},
          "level_note":"oracle = reference model written in the harness (truth/value tables, reference canonical forms); trusted: harness code, rustc; bounded exploration, no absence claim","technique":tech})
hooks=json.load(open('/verif/bin/hooks.json')) if os.path.exists('/verif/bin/hooks.json') else []
m={"version":1,"setup_cmd":"bin/setup",
"hooks":{"guard":"oxidd_verif","enable":"RUSTFLAGS='--cfg oxidd_verif' (set by bin/check and bin/setup for every harness build)","baseline_off_cmd":"cd /repo && cargo test --workspace --no-fail-fast --offline","source_commits":hooks,"add_only":True},
"engines":[{"name":"vrun","path":"harness","serves_properties":sorted(claimed),"kind_free_text":"Rust harness (proptest 1.11 driven from main): exhaustive small-scope enumeration + generated cases/histories against truth-table models; every job/case runs in a forked child so aborts become verdicts; built twice (release, and profile relcheck with debug assertions + overflow checks); libFuzzer targets in harness/fuzz reuse the oracles"}],
"checks":checks,
"not_applicable":[{"property_id":p["id"],"reason":"check under construction in this round (DESIGN.md §7 build order); not claimed until built"} for p in props if p["id"] not in claimed],
"notes":"Known findings: /verif/known_findings.json. Replays: /verif/replays/<id>/. Seeded breaking changes and the catch matrix: /verif/seeded/ (MATRIX.md). Exit 2 = inconclusive (watchdog, build problem), never a violation."}
json.dump(m,open('/verif/MANIFEST.json','w'),indent=1)
print(len(checks),"checks")
